#!/usr/bin/env python3
"""Shared machinery of /verif/bin/check: building the harness, running TLC jobs, piping TLC's
edges into the harness, validating traces, matching known findings, writing evidence."""
import json, os, re, subprocess, sys, time, shutil, hashlib

ROOT = os.path.dirname(os.path.dirname(os.path.abspath(__file__)))
SPEC = os.path.join(ROOT, "spec")
HARN = os.path.join(ROOT, "harness")
OUT = os.path.join(ROOT, "out")
EVID = os.path.join(ROOT, "evidence")
MV = os.path.join(HARN, "target", "debug", "mv")
MVR = os.path.join(HARN, "target", "release", "mv")
TLC_JAR_OPTS = "-Xss1g -Dtlc2.tool.queue.IStateQueue=StateDeque"


class ToolError(Exception):
    pass


def sh(cmd, **kw):
    return subprocess.run(cmd, shell=isinstance(cmd, str), stdout=subprocess.PIPE, stderr=subprocess.STDOUT, text=True, **kw)


def ensure_dirs():
    for d in (OUT, EVID, os.path.join(OUT, "cfg"), os.path.join(OUT, "tlc"), os.path.join(OUT, "replay"), os.path.join(OUT, "trace")):
        os.makedirs(d, exist_ok=True)


def build_harness(release=False):
    """(Re)builds the harness against /repo's current working tree (path dependency), hooks on."""
    ensure_dirs()
    if not os.path.exists(os.path.join(SPEC, "Names.tla")):
        sh([sys.executable, os.path.join(SPEC, "gen_names.py"), os.path.join(SPEC, "Names.tla")])
    cmd = ["cargo", "build", "--offline"] + (["--release"] if release else [])
    r = sh(cmd, cwd=HARN)
    if r.returncode != 0:
        sys.stderr.write(r.stdout[-4000:])
        raise ToolError("harness build failed (does /repo still compile?)")
    return MVR if release else MV


MC_TEMPLATE = """SPECIFICATION MCSpec
CONSTANTS
  Cfg = "{cfg}"
  MaxCols = {MaxCols}
  MaxRows = {MaxRows}
  RcCap = {RcCap}
  MaxRefs = {MaxRefs}
  Strategy = "{Strategy}"
  ExactPool = TRUE
  AsIs = {asis}
  EmptyLive = {emptylive}
VIEW view
CONSTRAINT PoolBound
INVARIANTS FlagsSane CleanIsDurable Accounting KeysOK CellsOK CatalogOK Limits
PROPERTIES Refines Atomic Frame CloseReopen ReadOnlyQuiet
CHECK_DEADLOCK FALSE
{extra}
"""


def parse_tlc_stats(text):
    st = {"completed": "Model checking completed. No error has been found." in text}
    m = re.findall(r"([\d,]+) states generated, ([\d,]+) distinct states found", text)
    if m:
        st["generated"] = int(m[-1][0].replace(",", ""))
        st["distinct"] = int(m[-1][1].replace(",", ""))
    m = re.search(r"depth of the complete state graph search is (\d+)", text)
    if m:
        st["depth"] = int(m.group(1))
    errs = [l for l in text.splitlines() if l.startswith("Error:")]
    st["errors"] = errs[:10]
    return st


def mc_walk(name, cfg, consts=None, workers=8, threads=8, trace_every=0, timeout=1500, emit=True):
    """Model-checks MC_Msi with alphabet `cfg`; every transition is piped into `mv walk`,
    which replays it on the real library.  Returns TLC statistics, the walk summary, violations."""
    ensure_dirs()
    c = {"MaxCols": 32, "MaxRows": 65536, "RcCap": 2, "MaxRefs": 65535, "Strategy": "ff", "asis": "{}", "emptylive": "FALSE"}
    c.update(consts or {})
    cfgpath = os.path.join(OUT, "cfg", "MC_%s.cfg" % name)
    with open(cfgpath, "w") as f:
        f.write(MC_TEMPLATE.format(cfg=cfg, extra="ACTION_CONSTRAINT Emit" if emit else "", **c))
    meta = os.path.join(OUT, "tlc", name)
    shutil.rmtree(meta, ignore_errors=True)
    tlclog = os.path.join(OUT, "tlc", name + ".log")
    if os.path.exists(tlclog):
        os.remove(tlclog)      # a stale log of an earlier run must not speak for this one
    viol = os.path.join(OUT, "tlc", name + ".viol")
    trace = os.path.join(OUT, "trace", name + ".ndjson")
    tlc = ["timeout", str(timeout), "tlc", "-workers", str(workers), "-metadir", meta, "-cleanup", "-noGenerateSpecTE",
           "-config", cfgpath, "MC_Msi.tla"]
    t0 = time.time()
    p1 = subprocess.Popen(tlc, cwd=SPEC, stdout=subprocess.PIPE, stderr=subprocess.STDOUT)
    walk = [MV, "walk", "--threads", str(threads), "--tlc-log", tlclog, "--viol", viol, "--trace", trace,
            "--trace-every", str(trace_every), "--max-viol", "200"]
    p2 = subprocess.Popen(walk, stdin=p1.stdout, stdout=subprocess.PIPE, text=True)
    p1.stdout.close()
    out, _ = p2.communicate()
    rc1 = p1.wait()
    tlctext = open(tlclog).read() if os.path.exists(tlclog) else ""
    st = parse_tlc_stats(tlctext)
    st["wall_s"] = round(time.time() - t0, 1)
    if rc1 == 124:
        raise ToolError("TLC timed out on %s" % name)
    if not st.get("completed"):
        sys.stderr.write(tlctext[-3000:])
        raise ToolError("TLC did not complete cleanly on %s: %s" % (name, st.get("errors")))
    w = None
    for l in out.splitlines():
        if l.startswith("WALK "):
            w = json.loads(l[5:])
    if w is None:
        raise ToolError("walk produced no summary")
    viols = [json.loads(l) for l in open(viol)] if os.path.exists(viol) else []
    # every generated state but the initial one is one emitted transition, except successors cut
    # by the state CONSTRAINT (they are counted as generated but are outside the bounded model)
    if emit and not (st.get("distinct", 0) - 1 <= w["edges"] <= st.get("generated", 0) - 1):
        raise ToolError("edge count %d does not match TLC's %s" % (w["edges"], st))
    return {"name": name, "tlc": st, "walk": w, "violations": viols, "trace": trace}


def mc_sim(name, cfg, consts, num, depth, seed, workers=4, threads=8, timeout=1500):
    """Random walks of the model (tlc -simulate) piped into `mv walk`.  The breadth-first search replays every
    transition once, from the SHORTEST history that reaches its source state; a random walk reaches the same
    states through long histories with detours (write a stream and remove it again, save twice, ...), which is
    where behaviour that depends on more than the modelled state shows."""
    ensure_dirs()
    c = {"MaxCols": 32, "MaxRows": 65536, "RcCap": 2, "MaxRefs": 65535, "Strategy": "ff", "asis": "{}", "emptylive": "FALSE"}
    c.update(consts or {})
    cfgpath = os.path.join(OUT, "cfg", "MC_%s.cfg" % name)
    with open(cfgpath, "w") as f:
        f.write(MC_TEMPLATE.format(cfg=cfg, extra="ACTION_CONSTRAINT Emit", **c))
    meta = os.path.join(OUT, "tlc", name)
    shutil.rmtree(meta, ignore_errors=True)
    tlclog = os.path.join(OUT, "tlc", name + ".log")
    if os.path.exists(tlclog):
        os.remove(tlclog)      # a stale log of an earlier run must not speak for this one
    viol = os.path.join(OUT, "tlc", name + ".viol")
    tlc = ["timeout", str(timeout), "tlc", "-workers", str(workers), "-simulate", "num=%d" % num, "-depth", str(depth), "-seed", str(seed),
           "-metadir", meta, "-cleanup", "-noGenerateSpecTE", "-config", cfgpath, "MC_Msi.tla"]
    t0 = time.time()
    p1 = subprocess.Popen(tlc, cwd=SPEC, stdout=subprocess.PIPE, stderr=subprocess.STDOUT)
    p2 = subprocess.Popen([MV, "walk", "--threads", str(threads), "--tlc-log", tlclog, "--viol", viol, "--max-viol", "200"], stdin=p1.stdout, stdout=subprocess.PIPE, text=True)
    p1.stdout.close()
    out, _ = p2.communicate()
    rc1 = p1.wait()
    shutil.rmtree(meta, ignore_errors=True)
    tlctext = open(tlclog).read() if os.path.exists(tlclog) else ""
    if rc1 == 124:
        raise ToolError("TLC simulation timed out on %s" % name)
    m = re.search(r"(\d+) states checked, (\d+) traces generated \(trace length: mean=(\d+)", tlctext)
    errs = [l for l in tlctext.splitlines() if l.startswith("Error:")]
    if errs or not m:
        sys.stderr.write(tlctext[-3000:])
        raise ToolError("TLC simulation failed on %s: %s" % (name, errs[:3]))
    w = None
    for l in out.splitlines():
        if l.startswith("WALK "):
            w = json.loads(l[5:])
    if w is None or w["edges"] == 0:
        raise ToolError("simulation walk produced nothing")
    viols = [json.loads(l) for l in open(viol)] if os.path.exists(viol) else []
    return {"name": name, "tlc": {"simulation": True, "states_checked": int(m.group(1)), "traces": int(m.group(2)), "mean_length": int(m.group(3)), "seed": seed, "wall_s": round(time.time() - t0, 1)},
            "walk": w, "violations": viols}


def mc_pipe(name, module, cfgtext, driver_args, summary_tag, workers=10, timeout=1500, expect_cases=None, simulate=None):
    """Runs TLC on a stateless enumeration module whose ACTION_CONSTRAINT prints one case per
    transition and pipes the cases into a harness driver.  Returns TLC stats, driver summary,
    violations."""
    ensure_dirs()
    cfgpath = os.path.join(OUT, "cfg", "%s.cfg" % name)
    open(cfgpath, "w").write(cfgtext)
    meta = os.path.join(OUT, "tlc", name)
    shutil.rmtree(meta, ignore_errors=True)
    tlclog = os.path.join(OUT, "tlc", name + ".log")
    if os.path.exists(tlclog):
        os.remove(tlclog)      # a stale log of an earlier run must not speak for this one
    viol = os.path.join(OUT, "tlc", name + ".viol")
    tlc = ["timeout", str(timeout), "tlc", "-workers", str(workers), "-metadir", meta, "-cleanup", "-noGenerateSpecTE",
           "-config", cfgpath, module + ".tla"]
    if simulate:      # (num, depth, seed): random walks instead of the breadth-first search (see mc_sim)
        tlc[3:3] = ["-simulate", "num=%d" % simulate[0], "-depth", str(simulate[1]), "-seed", str(simulate[2])]
    t0 = time.time()
    env = dict(os.environ, JAVA_TOOL_OPTIONS="-Xss512m")
    p1 = subprocess.Popen(tlc, cwd=SPEC, stdout=subprocess.PIPE, stderr=subprocess.STDOUT, env=env)
    p2 = subprocess.Popen([MV] + driver_args + ["--tlc-log", tlclog, "--viol", viol], stdin=p1.stdout, stdout=subprocess.PIPE, text=True)
    p1.stdout.close()
    out, _ = p2.communicate()
    rc1 = p1.wait()
    shutil.rmtree(meta, ignore_errors=True)
    tlctext = open(tlclog).read() if os.path.exists(tlclog) else ""
    st = parse_tlc_stats(tlctext)
    st["wall_s"] = round(time.time() - t0, 1)
    if rc1 == 124:
        raise ToolError("TLC timed out on %s" % name)
    if simulate:
        m = re.search(r"(\d+) states checked, (\d+) traces generated", tlctext)
        if st.get("errors") or not m:
            sys.stderr.write(tlctext[-3000:])
            raise ToolError("TLC simulation failed on %s: %s" % (name, st.get("errors")))
        st.update({"simulation": True, "states_checked": int(m.group(1)), "traces": int(m.group(2)), "completed": True})
    if not st.get("completed"):
        sys.stderr.write(tlctext[-3000:])
        raise ToolError("TLC did not complete cleanly on %s: %s" % (name, st.get("errors")))
    summ = None
    for l in out.splitlines():
        if l.startswith(summary_tag + " "):
            summ = json.loads(l[len(summary_tag) + 1:])
    if summ is None:
        raise ToolError("driver produced no summary for %s" % name)
    viols = [json.loads(l) for l in open(viol)] if os.path.exists(viol) else []
    return {"name": name, "tlc": st, "summary": summ, "violations": viols}


TRACE_CFG = """SPECIFICATION TraceSpec
CONSTANTS
  MaxCols = 32
  MaxRows = 65536
  RcCap = 65535
  MaxRefs = 65535
  Strategy = "ff"
  ExactPool = TRUE
  AsIs = {}
  EmptyLive = FALSE
  InvSkip = {}
POSTCONDITION Accepted
CHECK_DEADLOCK FALSE
"""


def parse_reports(text):
    """TLC prints tuples over several lines when they are long; re-join and parse reports."""
    reps = []
    joined = re.sub(r"\n\s+", " ", text)
    for m in re.finditer(r'<<\s*"(OBSERVATION-INCONSISTENT|STEP-REJECTED|INVARIANT-VIOLATED|PROPERTY-VIOLATED)",\s*(\d+),\s*(.*?)>>\s*$', joined, re.M):
        reps.append({"tag": m.group(1), "line": int(m.group(2)), "what": m.group(3).strip()})
    return reps


def tlc_trace(tracefile, spec="Trace_Msi", timeout=1800, cfgtext=TRACE_CFG, chunk=4000, split_any=False):
    """Validates an ndjson trace against the trace specification, in chunks (each chunk starts at
    a Reset/Create line so that it is self-contained).  Returns consumed lines and reports."""
    ensure_dirs()
    lines = open(tracefile).read().splitlines()
    if not lines:
        return {"lines": 0, "reports": [], "chunks": 0}
    # split at run starts
    starts = [i for i, l in enumerate(lines) if split_any or '"op":"Reset"' in l[:200] or '"op":"Create"' in l[:200] or i == 0]
    chunks, cur = [], [0]
    for s in starts[1:]:
        if s - cur[0] >= chunk:
            chunks.append((cur[0], s))
            cur = [s]
    chunks.append((cur[0], len(lines)))
    cfgpath = os.path.join(OUT, "cfg", spec + ".cfg")
    open(cfgpath, "w").write(cfgtext)
    reports, consumed = [], 0
    t0 = time.time()
    for ci, (a, b) in enumerate(chunks):
        part = os.path.join(OUT, "trace", "chunk_%s_%d.ndjson" % (hashlib.md5(tracefile.encode()).hexdigest()[:8], ci))
        open(part, "w").write("\n".join(lines[a:b]) + "\n")
        meta = os.path.join(OUT, "tlc", "trace_%d" % os.getpid())
        shutil.rmtree(meta, ignore_errors=True)
        env = dict(os.environ, TRACE=part, JAVA_TOOL_OPTIONS=TLC_JAR_OPTS)
        r = sh(["timeout", str(timeout), "tlc", "-workers", "1", "-metadir", meta, "-cleanup", "-noGenerateSpecTE",
                "-config", cfgpath, spec + ".tla"], cwd=SPEC, env=env)
        shutil.rmtree(meta, ignore_errors=True)
        text = r.stdout
        if r.returncode == 124:
            raise ToolError("trace validation timed out")
        if "TRACE-NOT-CONSUMED" in text or "Postcondition Accepted" in text and "is false" in text:
            m = re.search(r'"TRACE-NOT-CONSUMED",\s*(\d+)', re.sub(r"\n\s+", " ", text))
            ln = int(m.group(1)) if m else -1
            reports.append({"tag": "TRACE-NOT-CONSUMED", "line": a + ln, "what": lines[a + ln - 1][:300] if 0 < ln <= b - a else ""})
        elif "Model checking completed" not in text and "states generated" not in text:
            sys.stderr.write(text[-3000:])
            raise ToolError("TLC failed on trace chunk %d" % ci)
        elif re.search(r"^Error: (?!Postcondition)", text, re.M) and "TRACE-NOT-CONSUMED" not in text:
            sys.stderr.write(text[-3000:])
            raise ToolError("TLC evaluation error on trace chunk %d" % ci)
        for rep in parse_reports(text):
            rep["line"] += a
            rep["event"] = lines[rep["line"] - 1][:400] if 0 < rep["line"] <= len(lines) else ""
            reports.append(rep)
        consumed += b - a
        os.remove(part)
    return {"lines": consumed, "reports": reports, "chunks": len(chunks), "wall_s": round(time.time() - t0, 1)}


# ------------------------------------------------------------------------------------------------
# verdicts

def load_known():
    p = os.path.join(ROOT, "known_findings.json")
    if not os.path.exists(p):
        return []
    return json.load(open(p)).get("findings", [])


def match_known(pid, v, known):
    for k in known:
        if k.get("property") != pid:
            continue
        m = k.get("match", {})
        if "kind" in m and m["kind"] != v.get("kind"):
            continue
        if "op" in m and m["op"] != v.get("op"):
            continue
        if "regex" in m and not re.search(m["regex"], v.get("what", "") + " " + json.dumps(v.get("replay", ""))[:2000]):
            continue
        if "path_op" in m:
            # the history that fails: the replayed path (or the step itself) contains a step of this kind
            case = (v.get("replay") or {}).get("case") or {}
            steps = list(case.get("path") or []) + [case.get("ev") or {}]
            if not any(isinstance(st, dict) and st.get("op") == m["path_op"] for st in steps):
                continue
        return k
    return None


def finish(pid, tier, seed, level, coverage, violations, t0, assumptions=None, notes=None):
    """Writes evidence, prints KNOWN-FINDING / VIOLATION lines, returns the exit code."""
    ensure_dirs()
    known = load_known()
    seen_known, fresh = {}, []
    for v in violations:
        k = match_known(pid, v, known)
        if k is not None:
            seen_known.setdefault(k["id"], k)
        else:
            fresh.append(v)
    for k in seen_known.values():
        print("KNOWN-FINDING: property=%s %s" % (pid, k["what"]))
    rc = 0
    for i, v in enumerate(fresh[:20]):
        rp = os.path.join(OUT, "replay", "%s-%d.json" % (pid, i))
        json.dump({"property": pid, "tier": tier, "seed": seed, "violation": v}, open(rp, "w"), indent=1)
        print("VIOLATION property=%s replay=%s" % (pid, rp))
        print("  " + v.get("what", "")[:300])
        rc = 1
    if len(fresh) > 20:
        print("  ... and %d more violations" % (len(fresh) - 20))
    ev = {"property_id": pid, "tier": tier, "seed": seed, "level": level, "coverage": coverage,
          "assumptions": assumptions or [], "wall_s": round(time.time() - t0, 1), "violations": len(fresh),
          "known_findings_seen": sorted(seen_known.keys())}
    if notes:
        ev["notes"] = notes
    json.dump(ev, open(os.path.join(EVID, pid + ".json"), "w"), indent=1)
    print("%s %s: %s (%d violations, %d known findings) in %.0fs" % (pid, tier, "FAIL" if rc else "ok", len(fresh), len(seen_known), time.time() - t0))
    return rc
