//! C07: (column definition, value) pairs enumerated by TLC with the three-valued verdict of
//! Schema!ValidV; the library's Column::is_valid_value, Category::validate and the real
//! insert_rows / update_rows must agree on every decided case and never panic.
use crate::cases::{self, Outcome};
use crate::j::{self, from_cps};
use crate::session::Session;
use crate::Args;
use msi::{Category, Column, Delete, Expr, Insert, Select, Update, Value};
use serde_json::{json, Value as J};
use std::collections::HashMap;
use std::panic::{catch_unwind, AssertUnwindSafe};
use std::str::FromStr;

pub struct Ctx {
    sess: Session,
    tables: HashMap<String, (String, Option<Value>)>, // column json -> (table name, a value known to be accepted)
    dml_every: u64,
}

fn table_for(ctx: &mut Ctx, colj: &J) -> Option<String> {
    let key = colj.to_string();
    if let Some((n, _)) = ctx.tables.get(&key) {
        return Some(n.clone());
    }
    let name = format!("T{}", ctx.tables.len());
    let p = ctx.sess.pkg.as_mut().unwrap();
    let cols = vec![Column::build("K").primary_key().int16(), j::to_col(colj)];
    match p.create_table(name.as_str(), cols) {
        Ok(()) => {
            // a twin that never receives a row (it has no stream): statements on it are checked all the same
            let _ = p.create_table(format!("{}F", name), vec![Column::build("K").primary_key().int16(), j::to_col(colj)]);
            ctx.tables.insert(key, (name.clone(), None));
            Some(name)
        }
        Err(_) => None,
    }
}

fn run_arity(ctx: &mut Ctx, c: &J) -> Outcome {
    let n = c["arity"]["ncols"].as_u64().unwrap_or(1) as usize;
    let m = c["arity"]["nvals"].as_u64().unwrap_or(0) as usize;
    let want = c["want"].as_str().unwrap_or("no");
    let class = format!("arity:{}", want);
    let name = format!("A{}", n);
    let p = ctx.sess.pkg.as_mut().unwrap();
    if !p.has_table(&name) {
        let cols: Vec<Column> = (1..=n).map(|k| { let b = Column::build(format!("C{:02}", k)); if k == 1 { b.primary_key().int32() } else { b.int32() } }).collect();
        if p.create_table(name.as_str(), cols).is_err() {
            return Outcome { viol: Some(("harness", "cannot create arity table".into())), class };
        }
    }
    let row: Vec<Value> = (1..=m).map(|k| Value::Int(k as i32)).collect();
    let r = catch_unwind(AssertUnwindSafe(|| p.insert_rows(Insert::into(name.as_str()).row(row))));
    let viol = match r {
        Err(_) => Some(("valid-panic", format!("insert of {} values into {} columns panicked", m, n))),
        Ok(r) => {
            if r.is_ok() != (want == "yes") {
                Some(("valid-insert", format!("insert of {} values into a table of {} columns {}", m, n, if r.is_ok() { "was accepted" } else { "was refused" })))
            } else {
                None
            }
        }
    };
    let _ = p.delete_rows(Delete::from(name.as_str()));
    Outcome { viol, class }
}

fn run_case(ctx: &mut Ctx, c: &J, n: u64) -> Outcome {
    if c.get("arity").is_some() {
        return run_arity(ctx, c);
    }
    let want = c["want"].as_str().unwrap_or("unspec").to_string();
    let fam = if !c["col"]["cat"].as_array().map(|a| a.is_empty()).unwrap_or(true) {
        format!("cat-{}", from_cps(&c["col"]["cat"]))
    } else {
        format!("{}-col", c["col"]["type"].as_str().unwrap_or("?"))
    };
    let class = format!("{}:{}", fam, want);
    let v = j::to_val(&c["v"]);
    let col = j::to_col(&c["col"]);
    let got = match catch_unwind(AssertUnwindSafe(|| col.is_valid_value(&v))) {
        Ok(b) => b,
        Err(_) => return Outcome { viol: Some(("valid-panic", "Column::is_valid_value panicked".into())), class },
    };
    if let (Value::Str(s), Some(cat)) = (&v, col.category()) {
        let name = cat.to_string();
        let r = catch_unwind(AssertUnwindSafe(|| Category::from_str(&name).map(|c| c.validate(s))));
        match r {
            Err(_) => return Outcome { viol: Some(("valid-panic", format!("Category::{}.validate panicked", name))), class },
            Ok(Ok(b)) => {
                if (want == "yes" && !b) || (b && !got && col.enum_values().is_none() && col.coltype() == msi::ColumnType::Str(0)) {
                    return Outcome { viol: Some(("valid-verdict", format!("Category::{}.validate answered {} (is_valid_value {}), the documented grammar says {}", name, b, got, want))), class };
                }
            }
            Ok(Err(_)) => {}
        }
    }
    if (want == "yes" && !got) || (want == "no" && got) {
        return Outcome { viol: Some(("valid-verdict", format!("is_valid_value answered {} where the specification says {}", got, want))), class };
    }
    // the real statements
    let structural = fam.ends_with("-col");
    if !(structural || (ctx.dml_every > 0 && n % ctx.dml_every == 0)) {
        return Outcome { viol: None, class };
    }
    let t = match table_for(ctx, &c["col"]) {
        Some(t) => t,
        None => return Outcome { viol: None, class: format!("{} (column not storable: statements skipped)", class) },
    };
    let key = c["col"].to_string();
    let p = ctx.sess.pkg.as_mut().unwrap();
    let ins = catch_unwind(AssertUnwindSafe(|| p.insert_rows(Insert::into(t.as_str()).row(vec![Value::Int(1), v.clone()]))));
    let ok = match ins {
        Err(_) => return Outcome { viol: Some(("valid-panic", "insert_rows panicked".into())), class },
        Ok(r) => r.is_ok(),
    };
    if (want == "yes" && !ok) || (want == "no" && ok) || ok != got {
        let _ = p.delete_rows(Delete::from(t.as_str()));
        return Outcome { viol: Some(("valid-insert", format!("insert_rows {} the value; specification says {}, is_valid_value says {}", if ok { "accepted" } else { "refused" }, want, got))), class };
    }
    let mut viol = None;
    {
        // the same assignment on the never-populated twin: values are checked whether or not a row matches
        let fresh = format!("{}F", t);
        match catch_unwind(AssertUnwindSafe(|| p.update_rows(Update::table(fresh.as_str()).set("C", v.clone())))) {
            Err(_) => return Outcome { viol: Some(("valid-panic", "update_rows on an empty table panicked".into())), class },
            Ok(r) => {
                if r.is_ok() != ok {
                    return Outcome { viol: Some(("valid-update", format!("update_rows on a table that never held a row {} a value insert_rows {}", if r.is_ok() { "accepted" } else { "refused" }, if ok { "accepts" } else { "refuses" }))), class };
                }
            }
        }
    }
    if ok {
        let upd = catch_unwind(AssertUnwindSafe(|| p.update_rows(Update::table(t.as_str()).set("C", v.clone()).with(Expr::col("K").eq(Expr::integer(1))))));
        match upd {
            Err(_) => viol = Some(("valid-panic", "update_rows panicked".to_string())),
            Ok(Err(e)) => viol = Some(("valid-update", format!("update_rows refused a value insert_rows accepted: {}", e))),
            Ok(Ok(())) => {
                let back = p.select_rows(Select::table(t.as_str())).ok().and_then(|mut r| r.next()).map(|r| j::val_norm(&r[1]));
                if back != Some(j::val_norm(&v)) {
                    viol = Some(("valid-update", format!("the accepted value reads back as {:?}", back)));
                }
            }
        }
        if let Some(e) = ctx.tables.get_mut(&key) {
            if e.1.is_none() {
                e.1 = Some(v.clone());
            }
        }
    } else if let Some(good) = ctx.tables.get(&key).and_then(|e| e.1.clone()) {
        // every row of a batch is checked, not only the first: a valid row followed by one holding the refused value
        let batch = catch_unwind(AssertUnwindSafe(|| p.insert_rows(Insert::into(t.as_str()).rows(vec![vec![Value::Int(1), good.clone()], vec![Value::Int(2), v.clone()]]))));
        match batch {
            Err(_) => {
                return Outcome { viol: Some(("valid-panic", "insert_rows of a batch panicked".into())), class };
            }
            Ok(Ok(())) => {
                let _ = p.delete_rows(Delete::from(t.as_str()));
                return Outcome { viol: Some(("valid-insert", "a batch whose second row holds a value that insert_rows refuses on its own was accepted".into())), class };
            }
            Ok(Err(_)) => {}
        }
        let _ = p.insert_rows(Insert::into(t.as_str()).row(vec![Value::Int(1), good.clone()]));
        let upd = catch_unwind(AssertUnwindSafe(|| p.update_rows(Update::table(t.as_str()).set("C", v.clone()))));
        match upd {
            Err(_) => viol = Some(("valid-panic", "update_rows panicked".to_string())),
            Ok(Ok(())) => viol = Some(("valid-update", "update_rows accepted a value insert_rows refuses".to_string())),
            Ok(Err(_)) => {
                let back = p.select_rows(Select::table(t.as_str())).ok().and_then(|mut r| r.next()).map(|r| j::val_norm(&r[1]));
                if back != Some(j::val_norm(&good)) {
                    viol = Some(("valid-update", "a refused update changed the row".to_string()));
                }
            }
        }
    }
    let _ = p.delete_rows(Delete::from(t.as_str()));
    Outcome { viol, class }
}

/// impl -> spec: answers on random strings and library-built values, one ndjson line each.
pub fn trace_main(args: &Args) -> i32 {
    use crate::j::cps;
    use std::io::Write;
    let seed = args.num("seed", 1);
    let n = args.num("n", 2000);
    let mut rng = crate::rnd::Rng::new(seed);
    let mut out = std::io::BufWriter::new(std::fs::File::create(args.get("trace").expect("--trace")).expect("trace file"));
    let cats = ["Identifier", "Property", "GUID", "Integer", "DoubleInteger", "Version", "Language", "Cabinet", "UpperCase", "LowerCase", "Text"];
    let alpha: Vec<char> = "+-0123456789.,{}ABCDEFabcdefGz%#_ \u{e9}\u{1F600}\u{3042}".chars().collect();
    let mut line = |cat: &str, s: &str, built: bool| {
        let c = Category::from_str(cat).unwrap();
        let r = catch_unwind(AssertUnwindSafe(|| c.validate(s)));
        let (got, panic) = match r { Ok(b) => (b, false), Err(_) => (false, true) };
        let _ = writeln!(out, "{}", json!({"cat": cps(cat), "s": cps(s), "got": got, "built": built, "panic": panic}));
    };
    for i in 0..n {
        let cat = cats[(i % cats.len() as u64) as usize];
        let len = rng.below(14) as usize;
        let mut s: String = (0..len).map(|_| *rng.pick(&alpha)).collect();
        if cat == "GUID" && rng.chance(2, 3) {
            // near-valid GUIDs: a built one with a few random substitutions
            let u = uuid::Uuid::from_u128(((rng.next() as u128) << 64) | rng.next() as u128);
            let mut cs: Vec<char> = match Value::from(u) { Value::Str(t) => t.chars().collect(), _ => vec![] };
            for _ in 0..rng.below(3) {
                let p = rng.below(cs.len() as u64) as usize;
                cs[p] = *rng.pick(&alpha);
            }
            s = cs.into_iter().collect();
        }
        if (cat == "Version" || cat == "Language") && rng.chance(1, 2) {
            let sep = if cat == "Version" { "." } else { "," };
            let k = 1 + rng.below(5);
            s = (0..k).map(|_| match rng.below(6) { 0 => "65535".to_string(), 1 => "65536".to_string(), 2 => "0".to_string(), 3 => String::new(), _ => rng.below(70000).to_string() }).collect::<Vec<_>>().join(sep);
        }
        if (cat == "Integer" || cat == "DoubleInteger") && rng.chance(1, 2) {
            let v: i64 = match rng.below(8) { 0 => 32767, 1 => -32767, 2 => 32768, 3 => -32769, 4 => 2147483647, 5 => -2147483647, 6 => 2147483648, _ => rng.below(100000) as i64 - 50000 };
            s = v.to_string();
        }
        line(cat, &s, false);
    }
    // values the library builds itself
    for _ in 0..(n / 10).max(20) {
        let u = uuid::Uuid::from_u128(((rng.next() as u128) << 64) | rng.next() as u128);
        if let Value::Str(t) = Value::from(u) { line("GUID", &t, true); }
        let k = 1 + rng.below(4);
        let langs: Vec<msi::Language> = (0..k).map(|_| msi::Language::from_code(match rng.below(4) { 0 => 0, 1 => 65535, 2 => 1033, _ => rng.below(65536) as u16 })).collect();
        if let Value::Str(t) = Value::from(&langs[..]) { line("Language", &t, true); }
        if let Value::Str(t) = Value::from(langs[0]) { line("Language", &t, true); }
    }
    0
}

pub fn main(args: &Args) -> i32 {
    let dml_every = args.num("dml-every", 7);
    cases::run(
        args,
        "CASE",
        "VALIDITY",
        move || {
            let mut sess = Session::empty();
            sess.exec(&json!({"op":"Create","args":{"ptype":"Installer"}}));
            Ctx { sess, tables: HashMap::new(), dml_every }
        },
        run_case,
    )
}
