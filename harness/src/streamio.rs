//! C11 at the granularity of the handles: every transition of MC_StreamIO.tla replayed on
//! StreamWriter / StreamReader.  Handles do not borrow the package, so several can be alive
//! while tables are modified and the package is flushed.
use crate::cases::{self, Outcome};
use crate::media::Medium;
use crate::Args;
use msi::{Column, Insert, Package, PackageType, StreamReader, StreamWriter, Value};
use serde_json::Value as J;
use std::io::{Read, Seek, SeekFrom, Write};
use std::panic::{catch_unwind, AssertUnwindSafe};

thread_local! {
    static PANIC_AT: std::cell::RefCell<String> = std::cell::RefCell::new(String::new());
}
fn last_panic() -> String {
    PANIC_AT.with(|p| p.borrow().clone())
}

enum H {
    None,
    W(StreamWriter<Medium>),
    R(StreamReader<Medium>),
}

struct Run {
    pkg: Option<Package<Medium>>,
    med: Medium,
    hs: [H; 2],
    tkey: i32,
}

/// byte i of the t-th write of a history
fn byte(t: u64, i: u64) -> u8 {
    if t == 0 { 0 } else { ((t * 97 + i * 13 + i / 251) % 256) as u8 }
}
fn expand(chunks: &J) -> Vec<u8> {
    let mut v = Vec::new();
    for c in chunks.as_array().cloned().unwrap_or_default() {
        let (t, o, n) = (c["t"].as_u64().unwrap_or(0), c["o"].as_u64().unwrap_or(0), c["n"].as_u64().unwrap_or(0));
        for i in 0..n {
            v.push(byte(t, o + i));
        }
    }
    v
}

fn fresh() -> Run {
    let med = Medium::new(Vec::new());
    let mut pkg = Package::create(PackageType::Installer, med.handle()).expect("create");
    pkg.create_table("T", vec![Column::build("K").primary_key().int16(), Column::build("V").nullable().string(8)]).expect("table");
    Run { pkg: Some(pkg), med, hs: [H::None, H::None], tkey: 0 }
}

struct Got {
    r: &'static str, // Ok | Err | panic
    pos: Option<u64>,
    bytes: Option<Vec<u8>>,
    note: String,
}

fn guarded<T, F: FnOnce() -> std::io::Result<T>>(f: F) -> Result<std::io::Result<T>, ()> {
    catch_unwind(AssertUnwindSafe(f)).map_err(|_| ())
}

/// executes one event; `writes` is the number of Write events executed so far (the next tag is writes + 1)
fn exec(run: &mut Run, ev: &J, writes: &mut u64, observe_pos: bool) -> Got {
    let op = ev["op"].as_str().unwrap_or("");
    let slot = (ev["slot"].as_u64().unwrap_or(1).max(1) - 1) as usize;
    let name = ev["name"].as_str().unwrap_or("").to_string();
    let mut got = Got { r: "Ok", pos: None, bytes: None, note: String::new() };
    let res: Result<std::io::Result<()>, ()> = match op {
        "OpenW" => {
            let p = run.pkg.as_mut().unwrap();
            match guarded(|| p.write_stream(&name)) {
                Ok(Ok(w)) => {
                    run.hs[slot] = H::W(w);
                    Ok(Ok(()))
                }
                Ok(Err(e)) => Ok(Err(e)),
                Err(()) => Err(()),
            }
        }
        "OpenR" => {
            let p = run.pkg.as_mut().unwrap();
            match guarded(|| p.read_stream(&name)) {
                Ok(Ok(r)) => {
                    run.hs[slot] = H::R(r);
                    Ok(Ok(()))
                }
                Ok(Err(e)) => Ok(Err(e)),
                Err(()) => Err(()),
            }
        }
        "Write" => {
            let n = ev["a"].as_u64().unwrap_or(0);
            *writes += 1;
            let t = *writes;
            let data: Vec<u8> = (0..n).map(|i| byte(t, i)).collect();
            match &mut run.hs[slot] {
                H::W(w) => guarded(|| w.write_all(&data)),
                _ => Ok(Err(std::io::Error::new(std::io::ErrorKind::Other, "harness: no writer in slot"))),
            }
        }
        "Seek" => {
            let off = ev["a"].as_i64().unwrap_or(0);
            let from = match ev["b"].as_str().unwrap_or("") {
                "start" => SeekFrom::Start(off.max(0) as u64),
                "end" => SeekFrom::End(off),
                _ => SeekFrom::Current(off),
            };
            let r = match &mut run.hs[slot] {
                H::W(w) => guarded(|| w.seek(from)),
                H::R(r) => guarded(|| r.seek(from)),
                H::None => Ok(Err(std::io::Error::new(std::io::ErrorKind::Other, "harness: empty slot"))),
            };
            match r {
                Ok(Ok(p)) => {
                    got.pos = Some(p);
                    Ok(Ok(()))
                }
                Ok(Err(e)) => Ok(Err(e)),
                Err(()) => Err(()),
            }
        }
        "FlushH" => match &mut run.hs[slot] {
            H::W(w) => guarded(|| w.flush()),
            _ => Ok(Err(std::io::Error::new(std::io::ErrorKind::Other, "harness: no writer in slot"))),
        },
        "Read" => {
            let n = ev["a"].as_u64().unwrap_or(0) as usize;
            match &mut run.hs[slot] {
                H::R(r) => {
                    let mut out = Vec::new();
                    let x = guarded(|| {
                        let mut buf = vec![0u8; n];
                        let mut have = 0;
                        while have < n {
                            let k = r.read(&mut buf[have..])?;
                            if k == 0 {
                                break;
                            }
                            have += k;
                        }
                        buf.truncate(have);
                        out = buf;
                        Ok(())
                    });
                    got.bytes = Some(out);
                    x
                }
                _ => Ok(Err(std::io::Error::new(std::io::ErrorKind::Other, "harness: no reader in slot"))),
            }
        }
        "ReadRest" => match &mut run.hs[slot] {
            H::R(r) => {
                let mut out = Vec::new();
                let x = guarded(|| r.read_to_end(&mut out).map(|_| ()));
                got.bytes = Some(out);
                x
            }
            _ => Ok(Err(std::io::Error::new(std::io::ErrorKind::Other, "harness: no reader in slot"))),
        },
        "Close" => {
            let h = std::mem::replace(&mut run.hs[slot], H::None);
            guarded(|| {
                drop(h);
                Ok(())
            })
        }
        "Remove" => {
            let p = run.pkg.as_mut().unwrap();
            guarded(|| p.remove_stream(&name))
        }
        "TableOp" => {
            run.tkey += 1;
            let k = run.tkey;
            let p = run.pkg.as_mut().unwrap();
            guarded(|| p.insert_rows(Insert::into("T").row(vec![Value::Int(k), Value::Str(format!("v{}", k % 3))])))
        }
        "FlushPkg" => {
            let p = run.pkg.as_mut().unwrap();
            guarded(|| p.flush())
        }
        "Reopen" => {
            let p = run.pkg.take().unwrap();
            let med = run.med.clone();
            let r = guarded(|| {
                let m = p.into_inner()?;
                drop(m);
                Ok(())
            });
            match r {
                Ok(Ok(())) => match guarded(|| Package::open(med.handle())) {
                    Ok(Ok(p2)) => {
                        run.pkg = Some(p2);
                        Ok(Ok(()))
                    }
                    Ok(Err(e)) => {
                        got.note = "the saved package does not reopen".into();
                        Ok(Err(e))
                    }
                    Err(()) => Err(()),
                },
                other => {
                    // into_inner refused or panicked: carry on with a package opened from the bytes
                    if let Ok(Ok(p2)) = guarded(|| Package::open(med.handle())) {
                        run.pkg = Some(p2);
                    }
                    other
                }
            }
        }
        _ => Ok(Err(std::io::Error::new(std::io::ErrorKind::Other, format!("harness: unknown op {}", op)))),
    };
    got.r = match res {
        Ok(Ok(())) => "Ok",
        Ok(Err(e)) => {
            got.note = e.to_string();
            "Err"
        }
        Err(()) => "panic",
    };
    if observe_pos && got.r != "panic" && got.pos.is_none() {
        let r = match &mut run.hs[slot] {
            H::W(w) => Some(guarded(|| w.stream_position())),
            H::R(r) => Some(guarded(|| r.stream_position())),
            H::None => None,
        };
        match r {
            Some(Ok(Ok(p))) => got.pos = Some(p),
            Some(Ok(Err(e))) => got.note = format!("stream_position failed: {}", e),
            Some(Err(())) => {
                got.r = "panic";
                got.note = "stream_position panicked".into();
            }
            None => {}
        }
    }
    got
}

/// after a step the documentation leaves open: whatever the handles now are, using them must not panic
fn poke_handles(run: &mut Run) -> Option<String> {
    for slot in 0..2 {
        let h = std::mem::replace(&mut run.hs[slot], H::None);
        let r = catch_unwind(AssertUnwindSafe(|| match h {
            H::W(mut w) => {
                let _ = w.seek(SeekFrom::Current(0));
                let _ = w.write_all(b"zz");
                let _ = w.flush();
                let _ = w.seek(SeekFrom::Start(0));
                drop(w);
            }
            H::R(mut r) => {
                let mut b = [0u8; 16];
                let _ = r.read(&mut b);
                let _ = r.seek(SeekFrom::End(0));
                let _ = r.read(&mut b);
                drop(r);
            }
            H::None => {}
        }));
        if r.is_err() {
            return Some(format!("using the handle in slot {} afterwards panicked at {}", slot + 1, last_panic()));
        }
    }
    if let Some(p) = run.pkg.as_mut() {
        let r = catch_unwind(AssertUnwindSafe(|| {
            let _: Vec<String> = p.streams().collect();
            let _ = p.flush();
        }));
        if r.is_err() {
            return Some("listing the streams / flushing the package afterwards panicked".into());
        }
    }
    None
}

fn check_quiet(run: &mut Run, quiet: &J) -> Option<String> {
    let p = run.pkg.as_mut()?;
    let listed: Vec<String> = match catch_unwind(AssertUnwindSafe(|| p.streams().collect::<Vec<String>>())) {
        Ok(l) => l,
        Err(_) => return Some("streams() panicked".into()),
    };
    for (name, want) in quiet.as_object().cloned().unwrap_or_default() {
        let present = want.get("present");
        if listed.contains(&name) != present.is_some() || p.has_stream(&name) != present.is_some() {
            return Some(format!("stream {:?}: listed {} / has_stream {}, specified {}", name, listed.contains(&name), p.has_stream(&name), if present.is_some() { "present" } else { "absent" }));
        }
        let r = catch_unwind(AssertUnwindSafe(|| -> std::io::Result<Vec<u8>> {
            let mut rd = p.read_stream(&name)?;
            let mut b = Vec::new();
            rd.read_to_end(&mut b)?;
            Ok(b)
        }));
        match (r, present) {
            (Err(_), _) => return Some(format!("reading stream {:?} panicked", name)),
            (Ok(Ok(b)), Some(ch)) => {
                let w = expand(ch);
                if b != w {
                    let at = b.iter().zip(w.iter()).position(|(x, y)| x != y).unwrap_or(b.len().min(w.len()));
                    return Some(format!("stream {:?} holds {} bytes, specified {} bytes; first difference at offset {}", name, b.len(), w.len(), at));
                }
            }
            (Ok(Err(e)), Some(_)) => return Some(format!("stream {:?} cannot be read: {}", name, e)),
            (Ok(Ok(_)), None) => return Some(format!("stream {:?} can be read but is specified absent", name)),
            (Ok(Err(_)), None) => {}
        }
    }
    None
}

fn run_case(_ctx: &mut (), c: &J, _n: u64) -> Outcome {
    let mut run = fresh();
    let r = catch_unwind(AssertUnwindSafe(|| run_inner(&mut run, c)));
    let o = match r {
        Ok(o) => o,
        Err(_) => Outcome { viol: Some(("sio-panic", format!("panic outside a guarded call at {}", last_panic()))), class: "harness".into() },
    };
    // after a panic the container's lock is poisoned and destructors panic again: every object is
    // dropped on its own (a panic while another one unwinds would abort the process; leaking them
    // instead costs tens of gigabytes over a thorough run)
    let after_panic = o.viol.as_ref().map(|v| v.0 == "sio-panic" || v.0 == "sio-path").unwrap_or(false);
    let Run { pkg, med, hs, .. } = run;
    let mut drop_panicked = false;
    for h in hs {
        drop_panicked |= catch_unwind(AssertUnwindSafe(move || drop(h))).is_err();
    }
    drop_panicked |= catch_unwind(AssertUnwindSafe(move || drop(pkg))).is_err();
    drop(med);
    if drop_panicked && !after_panic {
        return Outcome { viol: Some(("sio-panic", format!("dropping the handles and the package panicked at {}", last_panic()))), class: o.class };
    }
    o
}

fn run_inner(run: &mut Run, c: &J) -> Outcome {
    let ev = &c["ev"];
    let want = ev["res"]["r"].as_str().unwrap_or("");
    let class = format!("{}:{}", ev["op"].as_str().unwrap_or("?"), want);
    let mut writes = 0u64;
    // C16 for the handles: between a reopen and the first mutating call nothing is written to the medium
    let mut quiet_since: Option<u64> = None;
    let mutating = |e: &J| matches!(e["op"].as_str().unwrap_or(""), "OpenW" | "Write" | "FlushH" | "Remove" | "TableOp");
    for pe in c["path"].as_array().cloned().unwrap_or_default().iter().skip(1) {
        let g = exec(run, pe, &mut writes, false);
        if pe["op"] == "Reopen" && g.r == "Ok" {
            quiet_since = Some(run.med.counters().writes);
        } else if mutating(pe) {
            quiet_since = None;
        }
        let w = pe["res"]["r"].as_str().unwrap_or("");
        if g.r == "panic" {
            return Outcome { viol: Some(("sio-path", format!("{} on the path panicked at {}", pe["op"], last_panic()))), class };
        }
        if w == "ErrOrOk" && g.r == "Ok" {
            // the implementation chose the other admitted behaviour: the rest is outside the modelled part
            return Outcome { viol: None, class: format!("{}:left-the-model", ev["op"].as_str().unwrap_or("?")) };
        }
        if w != "ErrOrOk" && w != "Any" && g.r != w {
            return Outcome { viol: Some(("sio-path", format!("{} on the path returned {} ({}), specified {}", pe["op"], g.r, g.note, w))), class };
        }
    }
    let g = exec(run, ev, &mut writes, true);
    if mutating(ev) || ev["op"] == "Reopen" {
        quiet_since = None;
    }
    if g.r == "panic" {
        return Outcome { viol: Some(("sio-panic", format!("{} panicked at {}", ev["op"], last_panic()))), class };
    }
    match want {
        "Any" => {
            if let Some(e) = poke_handles(run) {
                return Outcome { viol: Some(("sio-panic", format!("after {} on a stream that has a handle: {}", ev["op"], e))), class };
            }
            return Outcome { viol: None, class };
        }
        "ErrOrOk" => {
            if g.r == "Ok" {
                return Outcome { viol: None, class: format!("{}:Ok-beyond-end", ev["op"].as_str().unwrap_or("?")) };
            }
        }
        w => {
            if g.r != w {
                return Outcome { viol: Some(("sio-res", format!("{} returned {} ({}), specified {}", ev["op"], g.r, g.note, w))), class };
            }
        }
    }
    if let Some(wp) = ev["res"].get("pos").and_then(|p| p.as_u64()) {
        if ev["op"] != "Close" && g.pos != Some(wp) {
            return Outcome { viol: Some(("sio-pos", format!("after {} the cursor is {:?}, specified {} ({})", ev["op"], g.pos, wp, g.note))), class };
        }
    }
    if let Some(wb) = ev["res"].get("bytes") {
        let w = expand(wb);
        if g.bytes.as_deref() != Some(&w[..]) {
            return Outcome { viol: Some(("sio-read", format!("Read returned {} bytes, specified {} (or different contents)", g.bytes.map(|b| b.len()).unwrap_or(0), w.len()))), class };
        }
    }
    if let Some(w0) = quiet_since {
        let w1 = run.med.counters().writes;
        if w1 != w0 {
            return Outcome { viol: Some(("sio-quiet", format!("{} in a session that has only opened and read issued {} writes to the medium", ev["op"], w1 - w0))), class };
        }
    }
    if let Some(e) = check_quiet(run, &c["quiet"]) {
        return Outcome { viol: Some(("sio-content", format!("after {}: {}", ev["op"], e))), class };
    }
    // the table is what the table operations made it
    if let Some(p) = run.pkg.as_mut() {
        let n = catch_unwind(AssertUnwindSafe(|| p.select_rows(msi::Select::table("T")).map(|r| r.len()).unwrap_or(usize::MAX)));
        let n = n.unwrap_or(usize::MAX - 1);
        if n != run.tkey as usize {
            return Outcome { viol: Some(("sio-table", format!("table T has {} rows after {} inserts", n, run.tkey))), class };
        }
    }
    Outcome { viol: None, class }
}

pub fn main(args: &Args) -> i32 {
    if args.get("loud").is_none() {
        std::panic::set_hook(Box::new(|info| {
            let loc = info.location().map(|l| format!("{}:{}", l.file(), l.line())).unwrap_or_else(|| "?".into());
            let msg = if let Some(s) = info.payload().downcast_ref::<&str>() { s.to_string() } else if let Some(s) = info.payload().downcast_ref::<String>() { s.clone() } else { "?".into() };
            let short: String = msg.chars().take(100).collect();
            PANIC_AT.with(|p| *p.borrow_mut() = format!("{} ({})", loc.replace("/repo/", ""), short.replace('\n', " ")));
        }));
    }
    cases::run(args, "EDGE", "STREAMIO", || (), run_case)
}
