//! C19: exhaustively generated expressions and queries are printed by the library, tokenized by
//! a tokenizer without any precedence knowledge, and logged for TLC (Trace_Print.tla), which
//! reads the tokens with the grammar's precedence ladder and decides whether the text denotes
//! the object that was built.
use crate::j::{self, cps, from_cps};
use crate::queries::to_select;
use crate::Args;
use msi::{Delete, Insert, Update, Value};
use serde_json::{json, Value as J};
use std::io::Write;

const KEYWORDS: [&str; 19] = ["AND", "DELETE", "FALSE", "FROM", "INNER", "INSERT", "INTO", "JOIN", "LEFT", "NOT", "NULL", "ON", "OR", "SELECT", "SET", "TRUE", "UPDATE", "VALUES", "WHERE"];

pub fn tokenize(s: &str) -> Result<Vec<J>, String> {
    let cs: Vec<char> = s.chars().collect();
    let mut i = 0;
    let mut out = Vec::new();
    while i < cs.len() {
        let c = cs[i];
        if c == ' ' {
            i += 1;
        } else if c.is_ascii_alphabetic() || c == '_' {
            let st = i;
            while i < cs.len() && (cs[i].is_ascii_alphanumeric() || cs[i] == '_' || cs[i] == '.') {
                i += 1;
            }
            let w: String = cs[st..i].iter().collect();
            let up = w.to_ascii_uppercase();
            if KEYWORDS.contains(&up.as_str()) {
                out.push(json!({"t":"kw","v":up}));
            } else {
                out.push(json!({"t":"id","v":cps(&w)}));
            }
        } else if c.is_ascii_digit() {
            let st = i;
            while i < cs.len() && cs[i].is_ascii_digit() {
                i += 1;
            }
            let w: String = cs[st..i].iter().collect();
            let n: i64 = w.parse().map_err(|_| format!("bad integer {}", w))?;
            if n == 2147483648 && out.last() == Some(&json!({"t":"op","v":"-"})) {
                // 2147483648 is no 32-bit literal on its own: with its sign it is the least integer
                out.pop();
                out.push(json!({"t":"int","v":-2147483648i64}));
            } else if n > i32::MAX as i64 {
                return Err(format!("integer literal {} too large for the checker", n));
            } else {
                out.push(json!({"t":"int","v":n}));
            }
        } else if c == '"' {
            // the grammar's String token: any character but quote and backslash, or one of the escapes
            // \\ \" \' \n \r \t (the \x and \u forms are not produced for the literals used here)
            i += 1;
            let mut w = String::new();
            loop {
                if i >= cs.len() {
                    return Err("unterminated string".into());
                }
                match cs[i] {
                    '"' => break,
                    '\\' => {
                        let e = *cs.get(i + 1).ok_or("dangling backslash")?;
                        w.push(match e { '\\' => '\\', '"' => '"', '\'' => '\'', 'n' => '\n', 'r' => '\r', 't' => '\t', _ => return Err(format!("escape \\{} in string literal", e)) });
                        i += 2;
                    }
                    c => {
                        w.push(c);
                        i += 1;
                    }
                }
            }
            out.push(json!({"t":"str","v":cps(&w)}));
            i += 1;
        } else {
            let two: String = cs[i..(i + 2).min(cs.len())].iter().collect();
            if ["<=", ">=", "!=", "<<", ">>"].contains(&two.as_str()) {
                out.push(json!({"t":"op","v":two}));
                i += 2;
            } else if "=<>+-*/&|^~(),".contains(c) {
                out.push(json!({"t":"op","v":c.to_string()}));
                i += 1;
            } else {
                return Err(format!("unexpected character {:?}", c));
            }
        }
    }
    Ok(out)
}

const BIN: [&str; 17] = ["eq", "ne", "lt", "le", "gt", "ge", "add", "sub", "mul", "div", "band", "bor", "bxor", "shl", "shr", "and", "or"];
const UN: [&str; 3] = ["neg", "bitnot", "not"];

fn col(n: &str) -> J {
    json!({"col": cps(n)})
}
fn bin(op: &str, l: J, r: J) -> J {
    json!({"bin": op, "l": l, "r": r})
}
fn un(op: &str, a: J) -> J {
    json!({"un": op, "a": a})
}
fn lit(v: &Value) -> J {
    json!({"lit": j::val(v)})
}

fn children(leaves: &[J]) -> Vec<J> {
    let mut v = Vec::new();
    for op in BIN {
        v.push(bin(op, leaves[0].clone(), leaves[1].clone()));
    }
    for op in UN {
        v.push(un(op, leaves[0].clone()));
    }
    v
}

pub fn main(args: &Args) -> i32 {
    let deep = args.get("deep").is_some();
    let path = args.get("trace").expect("--trace");
    let mut out = std::io::BufWriter::new(std::fs::File::create(path).expect("trace file"));
    let mut n = 0u64;
    let mut tok_errors = 0u64;
    let mut emit = |kind: &str, key: &str, obj: &J, text: String| {
        match tokenize(&text) {
            Ok(toks) => {
                let mut m = serde_json::Map::new();
                m.insert("kind".into(), json!(kind));
                m.insert(key.into(), obj.clone());
                m.insert("toks".into(), J::Array(toks));
                m.insert("text".into(), json!(text.chars().filter(|c| c.is_ascii()).collect::<String>()));
                let _ = writeln!(out, "{}", J::Object(m));
                n += 1;
            }
            Err(why) => {
                // a text that is not made of the grammar's tokens denotes nothing: a line TLC rejects
                let _ = writeln!(out, "{}", json!({"kind":"lex","why":why,"text":text.chars().filter(|c| c.is_ascii()).collect::<String>()}));
                n += 1;
                tok_errors += 1;
            }
        }
    };
    let a = col("a");
    let b = col("b");
    let c = col("c");
    let leaves_sets: Vec<Vec<J>> = vec![
        vec![a.clone(), b.clone(), c.clone()],
        vec![lit(&Value::Int(5)), b.clone(), lit(&Value::Int(-5))],
        vec![a.clone(), lit(&Value::Str("x".into())), lit(&Value::Null)],
        vec![lit(&Value::Int(i32::MIN)), a.clone(), lit(&Value::Int(-1))],
        vec![lit(&Value::Null), lit(&Value::Int(i32::MAX)), b.clone()],
        // characters the grammar writes with an escape: quote, backslash, apostrophe, line feed, tab
        vec![lit(&Value::Str("say \"hi\"".into())), a.clone(), lit(&Value::Str("a\\b'c\nd\te\"".into()))],
    ];
    let mut exprs: Vec<J> = Vec::new();
    // every parent/child operator pair, on either side
    for ls in &leaves_sets {
        for ch in children(ls) {
            for p in BIN {
                exprs.push(bin(p, ch.clone(), ls[2].clone()));
                exprs.push(bin(p, ls[2].clone(), ch.clone()));
            }
            for p in UN {
                exprs.push(un(p, ch.clone()));
            }
        }
        // a child on both sides
        for p in BIN {
            for (c1, c2) in [("or", "and"), ("eq", "lt"), ("add", "mul"), ("sub", "sub"), ("not", "neg"), ("shl", "band")] {
                let mk = |o: &str, x: &J, y: &J| if UN.contains(&o) { un(o, x.clone()) } else { bin(o, x.clone(), y.clone()) };
                exprs.push(bin(p, mk(c1, &ls[0], &ls[1]), mk(c2, &ls[1], &ls[2])));
            }
        }
    }
    // all trees of depth <= 3 over one representative per precedence level
    let reps_b: Vec<&str> = if deep { vec!["or", "and", "eq", "bor", "bxor", "band", "shl", "add", "mul"] } else { vec!["or", "and", "eq", "band", "add", "mul"] };
    let reps_u = ["not", "neg"];
    let d1: Vec<J> = vec![a.clone()];
    let mut d2: Vec<J> = d1.clone();
    for o in &reps_b {
        d2.push(bin(o, a.clone(), b.clone()));
    }
    for o in reps_u {
        d2.push(un(o, a.clone()));
    }
    let mut d3: Vec<J> = Vec::new();
    for o in &reps_b {
        for x in &d2 {
            for y in &d2 {
                d3.push(bin(o, x.clone(), y.clone()));
            }
        }
    }
    for o in reps_u {
        for x in &d2 {
            d3.push(un(o, x.clone()));
        }
    }
    exprs.extend(d3.iter().cloned());
    if deep {
        // depth 4 on the left and right spines
        for o in &reps_b {
            for x in d3.iter().step_by(7) {
                exprs.push(bin(o, x.clone(), c.clone()));
                exprs.push(bin(o, c.clone(), x.clone()));
            }
        }
    }
    for e in &exprs {
        let text = j::to_expr(e).to_string();
        emit("expr", "e", e, text);
    }
    let n_expr = exprs.len();
    // queries
    let t = |n: &str| json!({"table": cps(n)});
    let sel = |q: J, cols: Vec<&str>, cond: J| json!({"sel": q, "cols": cols.iter().map(|c| cps(c)).collect::<Vec<_>>(), "cond": cond});
    let tru = json!({"lit":{"i":1}});
    let join = |k: &str, l: J, r: J, on: J| json!({"join": k, "l": l, "r": r, "on": on});
    let conds = vec![tru.clone(), bin("lt", col("Foo"), lit(&Value::Int(17))), bin("or", bin("eq", col("A.K"), col("B.K")), un("not", col("Bar"))),
                     bin("eq", un("not", col("Foo")), col("Bar")), bin("and", bin("or", col("x"), col("y")), col("z"))];
    let mut selects: Vec<J> = Vec::new();
    let operands = vec![t("A"), sel(t("B"), vec!["Foo"], tru.clone()), sel(t("B"), vec![], conds[1].clone()), sel(t("B"), vec!["Foo", "Bar"], conds[1].clone()),
                        join("inner", t("C"), t("D"), bin("eq", col("C.K"), col("D.K"))), sel(join("left", t("C"), t("D"), conds[2].clone()), vec!["C.K"], conds[3].clone())];
    for cnd in &conds {
        for cols in [vec![], vec!["Foo"], vec!["A.Foo", "B.Bar"]] {
            selects.push(sel(t("A"), cols.clone(), cnd.clone()));
            for k in ["inner", "left"] {
                for l in &operands {
                    for r in &operands {
                        selects.push(sel(join(k, l.clone(), r.clone(), conds[2].clone()), cols.clone(), cnd.clone()));
                    }
                }
            }
        }
    }
    for q in &selects {
        let text = to_select(q).to_string();
        emit("select", "q", q, text);
    }
    let vals = vec![Value::Null, Value::Int(0), Value::Int(-7), Value::Int(2147483647), Value::Str("quux".into()), Value::Str("".into()),
                    Value::Int(i32::MIN), Value::Int(-1), Value::Str("NULL".into()), Value::Str("a b".into()), Value::Int(65536),
                    Value::Str("q\"uo\\te".into())];
    let mut others = 0;
    for nrows in 0..5usize {
        for ncols in 1..5usize {
            // every value meets every position: the offsets walk through vals as rows and columns grow
            let rows: Vec<Vec<Value>> = (0..nrows).map(|r| (0..ncols).map(|c| vals[(r * 3 + c * 2 + nrows * 5 + ncols) % vals.len()].clone()).collect()).collect();
            let q = json!({"table": cps("Foobar"), "rows": rows.iter().map(|r| r.iter().map(j::val).collect::<Vec<_>>()).collect::<Vec<_>>()});
            let text = Insert::into("Foobar").rows(rows).to_string();
            emit("insert", "q", &q, text);
            others += 1;
        }
    }
    for cnd in &conds {
        for nsets in 1..5usize {
            let sets: Vec<(String, Value)> = (0..nsets).map(|k| (format!("C{}", (k * 7 + nsets) % 5), vals[(k * 2 + nsets * 3) % vals.len()].clone())).collect();
            let mut u = Update::table("Foobar");
            for (cn, v) in &sets {
                u = u.set(cn.as_str(), v.clone());
            }
            if !j::is_true_lit(cnd) {
                u = u.with(j::to_expr(cnd));
            }
            let q = json!({"table": cps("Foobar"), "sets": sets.iter().map(|(cn, v)| json!([cps(cn), j::val(v)])).collect::<Vec<_>>(), "cond": cnd});
            emit("update", "q", &q, u.to_string());
            others += 1;
        }
        let mut d = Delete::from("Foobar");
        if !j::is_true_lit(cnd) {
            d = d.with(j::to_expr(cnd));
        }
        emit("delete", "q", &json!({"table": cps("Foobar"), "cond": cnd}), d.to_string());
        others += 1;
    }
    // several restrictions added one by one (the builder ANDs them): each keeps its own meaning in the text,
    // whatever its outermost operator is
    let c_or = bin("or", col("x"), col("y"));
    let c_or2 = bin("or", col("u"), un("not", col("v")));
    let c_cmp = bin("lt", col("Foo"), lit(&Value::Int(17)));
    let c_not = un("not", col("Bar"));
    let chains: Vec<Vec<J>> = vec![vec![c_or.clone(), c_cmp.clone()], vec![c_cmp.clone(), c_or.clone()], vec![c_or.clone(), c_or2.clone()], vec![c_not.clone(), c_or.clone()],
                                   vec![c_or.clone(), c_cmp.clone(), c_or2.clone()], vec![bin("and", col("x"), col("y")), c_or.clone()]];
    for ch in &chains {
        let folded = ch.iter().skip(1).fold(ch[0].clone(), |acc, c| bin("and", acc, c.clone()));
        use msi::Select;
        let mut s1 = Select::table("A");
        let mut sj = Select::table("A").inner_join(Select::table("B"), j::to_expr(&conds[2]));
        let mut u = Update::table("Foobar").set("C0", Value::Int(1));
        let mut d = Delete::from("Foobar");
        for c in ch {
            s1 = s1.with(j::to_expr(c));
            sj = sj.with(j::to_expr(c));
            u = u.with(j::to_expr(c));
            d = d.with(j::to_expr(c));
        }
        emit("select", "q", &sel(t("A"), vec![], folded.clone()), s1.to_string());
        emit("select", "q", &sel(join("inner", t("A"), t("B"), conds[2].clone()), vec![], folded.clone()), sj.to_string());
        // a restricted select as a join operand
        let mut op = Select::table("B");
        for c in ch {
            op = op.with(j::to_expr(c));
        }
        emit("select", "q", &join("left", t("A"), sel(t("B"), vec![], folded.clone()), conds[2].clone()), Select::table("A").left_join(op, j::to_expr(&conds[2])).to_string());
        emit("update", "q", &json!({"table": cps("Foobar"), "sets": [[cps("C0"), j::val(&Value::Int(1))]], "cond": folded}), u.to_string());
        emit("delete", "q", &json!({"table": cps("Foobar"), "cond": folded}), d.to_string());
        others += 2;
    }
    drop(emit);
    let _ = from_cps(&json!([]));
    println!("PRINTING {}", json!({"lines": n, "exprs": n_expr, "selects": selects.len(), "other_queries": others, "tokenizer_errors": tok_errors}));
    0
}
