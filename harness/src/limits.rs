//! C20: capacity limits at real scale: for each limit L the operations that bring the quantity to
//! L-1, L and L+1, in one batch, incrementally, across reopen and after deletions.  Events carry
//! counters and digests for Trace_Limits.tla.
use crate::codec::fnv;
use crate::media::Medium;
use crate::Args;
use msi::{Column, Delete, Expr, Insert, Package, PackageType, Select, Value};
use serde_json::{json, Value as J};
use std::io::Write;
use std::panic::{catch_unwind, AssertUnwindSafe};

type Pkg = Package<Medium>;

/// a digest of everything observable (table list, schemas by name/type, all rows, streams)
fn digest(p: &mut Pkg) -> u64 {
    let mut h: u64 = 0xcbf29ce484222325;
    let mut feed = |b: &[u8]| {
        for &x in b {
            h ^= x as u64;
            h = h.wrapping_mul(0x100000001b3);
        }
    };
    let names: Vec<String> = p.tables().map(|t| t.name().to_string()).collect();
    for n in names {
        feed(n.as_bytes());
        let cols: Vec<String> = p.get_table(&n).map(|t| t.columns().iter().map(|c| format!("{}:{}:{}", c.name(), c.coltype(), c.is_primary_key())).collect()).unwrap_or_default();
        for c in cols {
            feed(c.as_bytes());
        }
        if let Ok(rows) = p.select_rows(Select::table(n.as_str())) {
            for r in rows {
                for i in 0..r.len() {
                    match &r[i] {
                        Value::Null => feed(b"\0"),
                        Value::Int(k) => feed(&k.to_le_bytes()),
                        Value::Str(s) => feed(s.as_bytes()),
                    }
                }
                feed(b"|");
            }
        }
    }
    let ss: Vec<String> = p.streams().collect();
    for s in ss {
        feed(s.as_bytes());
    }
    h ^ fnv(&[]) as u64
}

/// the string pool as the hook reports it: a refused statement must leave every entry and count as it was
fn pool_digest(p: &Pkg) -> u64 {
    let mut h: u64 = 0xcbf29ce484222325;
    for (text, rc) in p.verif_snapshot().pool.iter() {
        for &x in text.as_bytes().iter().chain(rc.to_le_bytes().iter()).chain(b"|".iter()) {
            h ^= x as u64;
            h = h.wrapping_mul(0x100000001b3);
        }
    }
    h
}

fn fresh() -> Pkg {
    Package::create(PackageType::Installer, Medium::new(Vec::new())).expect("create")
}
fn reopen(p: Pkg) -> Result<Pkg, String> {
    let m = p.into_inner().map_err(|e| e.to_string())?;
    Package::open(Medium::new(m.snap())).map_err(|e| e.to_string())
}

struct Out {
    sink: std::sync::Arc<std::sync::Mutex<Vec<J>>>,
}
impl Out {
    fn push_line(&mut self, j: J) {
        if let Ok(mut l) = self.sink.lock() {
            l.push(j);
        }
    }
}

/// exact accounting at real scale (C08 at the count limit): the saved bytes decoded independently; for every pool
/// entry holding `text`, its count and the number of cells that refer to it
fn accounting(p: &mut Pkg, med: &Medium, how: &str, text: &str) -> J {
    let r = catch_unwind(AssertUnwindSafe(|| -> Result<J, String> {
        p.flush().map_err(|e| e.to_string())?;
        let bytes = med.snap();      // the medium is shared: a second handle reads what the flush left
        let img = crate::codec::decode(&bytes, None)?;
        let mut uses: std::collections::HashMap<u32, u64> = Default::default();
        for t in &img.tables {
            for row in &t.rows {
                for c in row {
                    if let crate::codec::Cell::Ref(k) = c {
                        *uses.entry(*k).or_insert(0) += 1;
                    }
                }
            }
        }
        let mut entries = Vec::new();
        let mut stale = 0u64;
        for (i, (t, rc, raw)) in img.pool.iter().enumerate() {
            let k = i as u32 + 1;
            if t == text {
                entries.push(json!({"rc": rc, "cells": uses.get(&k).cloned().unwrap_or(0)}));
            }
            if *rc == 0 && !raw.is_empty() {
                stale += 1;
            }
        }
        Ok(json!({"limit": "refcount", "how": how, "entries": entries, "stale": stale}))
    }));
    match r {
        Ok(Ok(j)) => j,
        Ok(Err(e)) => json!({"limit": "refcount", "how": how, "entries": [], "stale": 0, "error": e}),
        Err(_) => json!({"limit": "refcount", "how": how, "entries": [], "stale": 0, "error": "panic"}),
    }
}
impl Out {
    /// runs `op` on the package, then records verdict data
    fn step<F: FnOnce(&mut Pkg) -> std::io::Result<()>>(&mut self, mut p: Pkg, limit: &str, how: &str, n: u64, op: F) -> Pkg {
        let before = digest(&mut p);
        let pool_before = pool_digest(&p);
        let r = catch_unwind(AssertUnwindSafe(|| op(&mut p)));
        let res = match &r {
            Ok(Ok(())) => "Ok",
            Ok(Err(_)) => "Err",
            Err(_) => "panic",
        };
        if res == "panic" {
            self.push_line(json!({"limit": limit, "how": how, "n": n, "res": res, "same": false, "reopen": "skip"}));
            return fresh();
        }
        let after = digest(&mut p);
        let pool_same = pool_digest(&p) == pool_before;
        // save + reopen: the library must be able to read what it wrote
        let ro = catch_unwind(AssertUnwindSafe(|| reopen(p)));
        let (reopen_res, p2, same) = match ro {
            Ok(Ok(mut q)) => {
                let d = digest(&mut q);
                let same = if res == "Err" { after == before && d == before && pool_same } else { d == after };
                ("Ok", q, same)
            }
            Ok(Err(_)) => ("Err", fresh(), false),
            Err(_) => ("panic", fresh(), false),
        };
        self.push_line(json!({"limit": limit, "how": how, "n": n, "res": res, "same": same, "reopen": reopen_res}));
        p2
    }
}

fn ident(n: usize) -> String {
    (0..n).map(|k| if k == 0 { 'T' } else { (b'a' + (k % 26) as u8) as char }).collect()
}
fn int_cols(n: usize) -> Vec<Column> {
    (1..=n).map(|k| if k == 1 { Column::build(format!("C{:02}", k)).primary_key().int16() } else { Column::build(format!("C{:02}", k)).nullable().int16() }).collect()
}
fn rows(from: i32, to: i32) -> Vec<Vec<Value>> {
    (from..to).map(|k| vec![Value::Int(k), Value::Int(k % 7)]).collect()
}

/// exact accounting at the COUNT limit: 65535 cells share one string (one saturated entry), one more cell opens a
/// second entry; releasing cells of either entry, re-assigning, dropping: after every save each entry's count equals
/// the number of cells that refer to it (Trace_Limits: PoolWF on the entries of that string)
fn refcount_scenarios(o: &mut Out) {
    let med = Medium::new(Vec::new());
    let mut p = Package::create(PackageType::Installer, med.handle()).expect("create");
    p.create_table("D", vec![Column::build("K").primary_key().int32(), Column::build("A").nullable().string(0), Column::build("B").nullable().string(0), Column::build("C").nullable().string(0)]).unwrap();
    let sat: Vec<Vec<Value>> = (0..21845).map(|k| vec![Value::Int(k), Value::Str("sat".into()), Value::Str("sat".into()), Value::Str("sat".into())]).collect();
    p.insert_rows(Insert::into("D").rows(sat)).unwrap();
    o.push_line(accounting(&mut p, &med, "65535 cells", "sat"));
    p.insert_rows(Insert::into("D").row(vec![Value::Int(50000), Value::Str("sat".into()), Value::Str("sat".into()), Value::Null])).unwrap();
    o.push_line(accounting(&mut p, &med, "65537 cells: a second entry", "sat"));
    p.delete_rows(Delete::from("D").with(Expr::col("K").eq(Expr::integer(0)))).unwrap();
    o.push_line(accounting(&mut p, &med, "a row of the saturated entry deleted", "sat"));
    p.update_rows(msi::Update::table("D").set("A", Value::Str("other".into())).with(Expr::col("K").eq(Expr::integer(1)))).unwrap();
    o.push_line(accounting(&mut p, &med, "a cell of the saturated entry re-assigned", "sat"));
    p.update_rows(msi::Update::table("D").set("B", Value::Null).with(Expr::col("K").eq(Expr::integer(50000)))).unwrap();
    o.push_line(accounting(&mut p, &med, "a cell of the second entry released", "sat"));
    p.insert_rows(Insert::into("D").row(vec![Value::Int(50001), Value::Str("sat".into()), Value::Null, Value::Null])).unwrap();
    o.push_line(accounting(&mut p, &med, "one more reference after releases", "sat"));
    p.drop_table("D").unwrap();
    o.push_line(accounting(&mut p, &med, "table dropped", "sat"));
    // more references than one entry can count arriving in ONE statement (a per-statement shortcut must respect the cap)
    p.create_table("E", vec![Column::build("K").primary_key().int32(), Column::build("A").nullable().string(0), Column::build("B").nullable().string(0), Column::build("C").nullable().string(0)]).unwrap();
    let many: Vec<Vec<Value>> = (0..21846).map(|k| vec![Value::Int(k), Value::Str("dup".into()), Value::Str("dup".into()), Value::Str("dup".into())]).collect();
    p.insert_rows(Insert::into("E").rows(many)).unwrap();
    o.push_line(accounting(&mut p, &med, "65538 cells in one statement", "dup"));
    p.delete_rows(Delete::from("E").with(Expr::col("K").lt(Expr::integer(21845)))).unwrap();
    o.push_line(accounting(&mut p, &med, "all but one of those rows deleted", "dup"));
}

pub fn main(args: &Args) -> i32 {
    // a panic of the library OUTSIDE a measured step (while a scenario is being set up) is data too: the lines recorded so
    // far are kept and one more line, which the specification rejects, reports it
    let lines: std::sync::Arc<std::sync::Mutex<Vec<J>>> = Default::default();
    let sink = lines.clone();
    let args2 = Args { cmd: args.cmd.clone(), kv: args.kv.clone() };
    let r = catch_unwind(AssertUnwindSafe(move || run(&args2, sink)));
    let mut all = lines.lock().map(|l| l.clone()).unwrap_or_default();
    if r.is_err() {
        let last = all.last().map(|l| l["how"].as_str().unwrap_or("").to_string()).unwrap_or_default();
        all.push(json!({"limit": "setup", "how": format!("a library call between the measured steps panicked (after: {})", last), "n": 0, "res": "panic", "same": false, "reopen": "skip"}));
    }
    let mut f = std::io::BufWriter::new(std::fs::File::create(args.get("trace").expect("--trace")).expect("trace"));
    for l in &all {
        let _ = writeln!(f, "{}", l);
    }
    println!("LIMITS {}", json!({"scenarios": all.len()}));
    0
}

fn run(args: &Args, sink: std::sync::Arc<std::sync::Mutex<Vec<J>>>) {
    let with_strings = args.get("no-strings").is_none();
    let mut o = Out { sink };
    if args.get("refcount-only").is_some() {
        refcount_scenarios(&mut o);
        return;
    }
    // --- columns: 31 / 32 / 33
    for n in [1usize, 31, 32, 33, 40] {
        let p = fresh();
        o.step(p, "cols", "create_table", n as u64, |p| p.create_table("Wide", int_cols(n)));
    }
    // --- names
    for n in [1usize, 31, 32, 33, 60, 61, 64, 65] {
        let p = fresh();
        o.step(p, "tname", "create_table", n as u64, |p| p.create_table(ident(n), int_cols(2)));
        let p = fresh();
        o.step(p, "cname", "create_table", n as u64, |p| p.create_table("N", vec![Column::build("K").primary_key().int16(), Column::build(ident(n)).nullable().int16()]));
    }
    for n in [1usize, 61, 62, 63, 64, 100] {
        let p = fresh();
        o.step(p, "sname", "write_stream", n as u64, |p| {
            let mut w = p.write_stream(&ident(n).to_lowercase())?;
            w.write_all(b"data")?;
            w.flush()
        });
    }
    // stream names are limited in UTF-16 units after packing, not in bytes: 31 three-byte characters fit, 32 do not
    for n in [21usize, 31, 32] {
        let p = fresh();
        let name: String = std::iter::repeat('\u{65e5}').take(n).collect();
        o.step(p, "sname16", "write_stream, three-byte characters", n as u64, |p| {
            let mut w = p.write_stream(&name)?;
            w.write_all(b"data")?;
            w.flush()
        });
    }
    // the catalog tables are tables too: create_table when _Validation (or _Columns) cannot take its rows
    {
        let mut p = fresh();
        // orphan validation rows, as another tool may leave them, up to 3 below the row limit
        let have = p.select_rows(Select::table("_Validation")).map(|r| r.len()).unwrap_or(0);
        let orphans: Vec<Vec<Value>> = (0..(65536 - 3 - have)).map(|k| {
            vec![Value::Str(format!("Gone{}", k / 256)), Value::Str(format!("c{}", k % 256)), Value::Str("Y".into()), Value::Null, Value::Null, Value::Null, Value::Null, Value::Null, Value::Null, Value::Null]
        }).collect();
        p.insert_rows(Insert::into("_Validation").rows(orphans)).unwrap();
        p = o.step(p, "rows", "create_table whose validation rows do not fit any more", 65537, |p| p.create_table("Wide4", int_cols(4)));
        let _ = o.step(p, "rows", "create_table whose validation rows just fit", 65536, |p| p.create_table("Wide3", int_cols(3)));
    }
    // --- rows: one batch to L-1, L, L+1
    let two = || vec![Column::build("K").primary_key().int32(), Column::build("V").nullable().int16()];
    for n in [65535i32, 65536, 65537] {
        let mut p = fresh();
        p.create_table("R", two()).unwrap();
        o.step(p, "rows", "one batch", n as u64, |p| p.insert_rows(Insert::into("R").rows(rows(0, n))));
    }
    // incrementally, across reopen, and after deletions have freed capacity
    {
        let mut p = fresh();
        p.create_table("R", two()).unwrap();
        p.insert_rows(Insert::into("R").rows(rows(0, 65534))).unwrap();
        p = o.step(p, "rows", "incremental", 65535, |p| p.insert_rows(Insert::into("R").rows(rows(65534, 65535))));
        p = o.step(p, "rows", "incremental after reopen", 65536, |p| p.insert_rows(Insert::into("R").rows(rows(65535, 65536))));
        p = o.step(p, "rows", "incremental after reopen", 65537, |p| p.insert_rows(Insert::into("R").rows(rows(65536, 65537))));
        p = o.step(p, "rows", "batch of 2 at the limit", 65538, |p| p.insert_rows(Insert::into("R").rows(rows(70000, 70002))));
        let _ = p.delete_rows(Delete::from("R").with(Expr::col("K").lt(Expr::integer(10))));
        p = o.step(p, "rows", "after deletion freed 10", 65536, |p| p.insert_rows(Insert::into("R").rows(rows(80000, 80010))));
        let _ = o.step(p, "rows", "after deletion, one more", 65537, |p| p.insert_rows(Insert::into("R").rows(rows(90000, 90001))));
    }
    // a statement refused at the ROW limit whose rows carry new strings: the pool stays as it was
    {
        let mut p = fresh();
        p.create_table("R", vec![Column::build("K").primary_key().int32(), Column::build("V").nullable().string(0)]).unwrap();
        p.insert_rows(Insert::into("R").rows((0..65536).map(|k| vec![Value::Int(k), Value::Null]).collect())).unwrap();
        p = o.step(p, "rows", "refused at the limit, the rows carry new strings", 65538, |p| {
            p.insert_rows(Insert::into("R").rows(vec![vec![Value::Int(70000), Value::Str("left behind?".into())], vec![Value::Int(70001), Value::Str("and this".into())]]))
        });
        let _ = o.step(p, "rows", "update at the limit stays possible", 65536, |p| p.update_rows(msi::Update::table("R").set("V", Value::Str("x".into())).with(Expr::col("K").lt(Expr::integer(3)))));
    }
    // --- distinct strings addressable by two-byte references
    if with_strings {
        let scols = || vec![Column::build("K").primary_key().int32(), Column::build("V").nullable().string(0)];
        let srows = |from: i32, to: i32| -> Vec<Vec<Value>> { (from..to).map(|k| vec![Value::Int(k), Value::Str(format!("s{:06}", k))]).collect() };
        let mut base = fresh();
        base.create_table("S", scols()).unwrap();
        let used = base.verif_snapshot().pool.len() as i32;
        let targets: Vec<i32> = if args.get("fewer").is_some() { vec![65536] } else { vec![65534, 65535, 65536] };
        for target in targets {
            let mut p = fresh();
            p.create_table("S", scols()).unwrap();
            o.step(p, "strings", "one batch", target as u64, |p| p.insert_rows(Insert::into("S").rows(srows(0, target - used))));
        }
        let mut p = fresh();
        p.create_table("S", scols()).unwrap();
        p.insert_rows(Insert::into("S").rows(srows(0, 65534 - used))).unwrap();
        p = o.step(p, "strings", "incremental", 65535, |p| p.insert_rows(Insert::into("S").rows(srows(100000, 100001))));
        p = o.step(p, "strings", "re-use of an existing string at the limit", 65535, |p| p.insert_rows(Insert::into("S").row(vec![Value::Int(200000), Value::Str("s000001".into())])));
        p = o.step(p, "strings", "incremental after reopen", 65536, |p| p.insert_rows(Insert::into("S").rows(srows(100001, 100002))));
        p = o.step(p, "strings", "update to a new string at the limit", 65536, |p| p.update_rows(msi::Update::table("S").set("V", Value::Str("brand new".into())).with(Expr::col("K").eq(Expr::integer(200000)))));
        let _ = p.delete_rows(Delete::from("S").with(Expr::col("K").lt(Expr::integer(5))));
        // rows 0..4 are gone; "s000001" is still used by row 200000, so exactly 4 entries are free again
        p = o.step(p, "strings", "after deletion freed 4 entries", 65535, |p| p.insert_rows(Insert::into("S").rows(srows(300000, 300004))));
        p = o.step(p, "strings", "after deletion, one more", 65536, |p| p.insert_rows(Insert::into("S").rows(srows(400000, 400001))));
        let _ = o.step(p, "strings", "update of the only user of a string at the limit", 65535, |p| p.update_rows(msi::Update::table("S").set("V", Value::Str("replacement".into())).with(Expr::col("K").eq(Expr::integer(300000)))));
        // more than 65535 references to ONE new string in a single statement need a second entry (the count of an
        // entry stops at 65535): with room for one entry only, the statement must be refused, not die half-way
        let mut p = fresh();
        p.create_table("D", vec![Column::build("K").primary_key().int32(), Column::build("A").nullable().string(0), Column::build("B").nullable().string(0)]).unwrap();
        p.create_table("S", scols()).unwrap();
        let used2 = p.verif_snapshot().pool.len() as i32;
        p.insert_rows(Insert::into("S").rows(srows(0, 65534 - used2))).unwrap();
        let dup: Vec<Vec<Value>> = (0..32768).map(|k| vec![Value::Int(k), Value::Str("dup".into()), Value::Str("dup".into())]).collect();
        let _ = o.step(p, "strings", "65536 references to one new string with room for one entry", 65536, |p| p.insert_rows(Insert::into("D").rows(dup)));
        // create_table writes three catalog tables: with room for the strings of the first two only, nothing may be created
        let mut p = fresh();
        p.create_table("S", scols()).unwrap();
        let used3 = p.verif_snapshot().pool.len() as i32;
        p.insert_rows(Insert::into("S").rows(srows(0, 65535 - 2 - used3))).unwrap();
        p = o.step(p, "strings", "create_table whose last catalog insert finds the pool full", 65536, |p| {
            p.create_table("Zz", vec![Column::build("K").primary_key().int16(), Column::build("Cq").nullable().enum_values(&["qq", "rr"]).string(8)])
        });
        let _ = o.step(p, "strings", "create_table that just fits", 65535, |p| {
            p.create_table("Zy", vec![Column::build("K").primary_key().int16()])
        });
        // a string whose only entry is saturated (65535 references) needs a NEW entry for one more reference: with the
        // pool full the statement must be refused
        let mut p = fresh();
        p.create_table("D", vec![Column::build("K").primary_key().int32(), Column::build("A").nullable().string(0), Column::build("B").nullable().string(0), Column::build("C").nullable().string(0)]).unwrap();
        p.create_table("S", scols()).unwrap();
        let sat: Vec<Vec<Value>> = (0..21845).map(|k| vec![Value::Int(k), Value::Str("sat".into()), Value::Str("sat".into()), Value::Str("sat".into())]).collect();
        p.insert_rows(Insert::into("D").rows(sat)).unwrap();
        let used4 = p.verif_snapshot().pool.len() as i32;
        p.insert_rows(Insert::into("S").rows(srows(0, 65535 - used4))).unwrap();
        p = o.step(p, "strings", "one more reference to a saturated string, pool full", 65536, |p| {
            p.insert_rows(Insert::into("D").row(vec![Value::Int(900000), Value::Str("sat".into()), Value::Null, Value::Null]))
        });
        let _ = p.delete_rows(Delete::from("S").with(Expr::col("K").eq(Expr::integer(3))));
        let _ = o.step(p, "strings", "one more reference to a saturated string, one entry free", 65535, |p| {
            p.insert_rows(Insert::into("D").row(vec![Value::Int(900000), Value::Str("sat".into()), Value::Null, Value::Null]))
        });
        refcount_scenarios(&mut o);
        // UPDATE at a full pool: the entries the statement frees become available only when their LAST reference goes
        // (two rows sharing the old string), and a cell re-assigned its own current string frees nothing
        let mut p = fresh();
        p.create_table("S", scols()).unwrap();
        let used5 = p.verif_snapshot().pool.len() as i32;
        p.insert_rows(Insert::into("S").rows(srows(0, 65534 - used5))).unwrap();
        p.insert_rows(Insert::into("S").rows(vec![vec![Value::Int(700000), Value::Str("shared".into())], vec![Value::Int(700001), Value::Str("shared".into())]])).unwrap();
        p = o.step(p, "strings", "update of both users of a shared string to a new string, pool full", 65535, |p| {
            p.update_rows(msi::Update::table("S").set("V", Value::Str("Fresh".into())).with(Expr::col("K").ge(Expr::integer(700000))))
        });
        p = o.step(p, "strings", "update assigning a cell its own string and then nothing new, pool full", 65535, |p| {
            p.update_rows(msi::Update::table("S").set("V", Value::Str("Fresh".into())).with(Expr::col("K").eq(Expr::integer(700000))))
        });
        let _ = o.step(p, "strings", "update of one of two users of a string to a new string, pool full", 65536, |p| {
            p.update_rows(msi::Update::table("S").set("V", Value::Str("one more".into())).with(Expr::col("K").eq(Expr::integer(700000))))
        });
        // a cell re-assigned its own string, of which it is the ONLY user, next to a new string: the entry is released and
        // taken again by the same statement - it is not room for the new string
        let mut p = fresh();
        p.create_table("S", scols()).unwrap();
        p.create_table("P2", vec![Column::build("K").primary_key().int32(), Column::build("A").nullable().string(0), Column::build("B").nullable().string(0)]).unwrap();
        p.insert_rows(Insert::into("P2").row(vec![Value::Int(1), Value::Str("Alpha".into()), Value::Null])).unwrap();
        let used6 = p.verif_snapshot().pool.len() as i32;
        p.insert_rows(Insert::into("S").rows(srows(0, 65535 - used6))).unwrap();
        p = o.step(p, "strings", "update re-assigning a cell its own sole-user string plus one new string, pool full", 65536, |p| {
            p.update_rows(msi::Update::table("P2").set("A", Value::Str("Alpha".into())).set("B", Value::Str("Omega".into())).with(Expr::col("K").eq(Expr::integer(1))))
        });
        let _ = p.delete_rows(Delete::from("S").with(Expr::col("K").eq(Expr::integer(5))));
        let _ = o.step(p, "strings", "the same update with one entry free", 65535, |p| {
            p.update_rows(msi::Update::table("P2").set("A", Value::Str("Alpha".into())).set("B", Value::Str("Omega".into())).with(Expr::col("K").eq(Expr::integer(1))))
        });
        // a free entry BEFORE a string that the same statement re-uses: the statement needs one entry for its
        // one new string and exactly one is free (a first-fit allocator that duplicates the re-used string runs out)
        let mut p = fresh();
        p.create_table("S", scols()).unwrap();
        p.insert_rows(Insert::into("S").rows(srows(0, 65535 - used))).unwrap();
        let _ = p.delete_rows(Delete::from("S").with(Expr::col("K").eq(Expr::integer(10))));
        p = o.step(p, "strings", "one free entry before a re-used string, plus one new string", 65535, |p| {
            p.insert_rows(Insert::into("S").rows(vec![vec![Value::Int(500000), Value::Str("s060000".into())], vec![Value::Int(500001), Value::Str("fresh one".into())]]))
        });
        p = o.step(p, "strings", "re-used string plus one new string, no free entry", 65536, |p| {
            p.insert_rows(Insert::into("S").rows(vec![vec![Value::Int(600000), Value::Str("s060001".into())], vec![Value::Int(600001), Value::Str("fresh two".into())]]))
        });
        let _ = p.delete_rows(Delete::from("S").with(Expr::col("K").eq(Expr::integer(20))));
        let _ = o.step(p, "strings", "update of two rows to a re-used and then free entry", 65535, |p| {
            p.update_rows(msi::Update::table("S").set("V", Value::Str("s060002".into())).with(Expr::col("K").eq(Expr::integer(500001))))
        });
    }
}
