//! small deterministic PRNG (splitmix64 / xorshift), seeded from VERIF_SEED
pub struct Rng(pub u64);
impl Rng {
    pub fn new(seed: u64) -> Rng {
        Rng(seed.wrapping_mul(0x9E37_79B9_7F4A_7C15) ^ 0xD1B5_4A32_D192_ED03)
    }
    pub fn next(&mut self) -> u64 {
        self.0 = self.0.wrapping_add(0x9E37_79B9_7F4A_7C15);
        let mut z = self.0;
        z = (z ^ (z >> 30)).wrapping_mul(0xBF58_476D_1CE4_E5B9);
        z = (z ^ (z >> 27)).wrapping_mul(0x94D0_49BB_1331_11EB);
        z ^ (z >> 31)
    }
    pub fn below(&mut self, n: u64) -> u64 {
        if n == 0 { 0 } else { self.next() % n }
    }
    pub fn chance(&mut self, num: u64, den: u64) -> bool {
        self.below(den) < num
    }
    pub fn pick<'a, T>(&mut self, xs: &'a [T]) -> &'a T {
        &xs[self.below(xs.len() as u64) as usize]
    }
}
