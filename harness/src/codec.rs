//! An INDEPENDENT reader/writer of the MSI database format, written from the format description
//! (DESIGN.md appendix C) using only `cfb` for the container and `encoding_rs` with the reference
//! code-page wiring -- never the `msi` crate.
use crate::j::cps;
use encoding_rs::Encoding;
use serde_json::{json, Value as J};
use std::io::{Cursor, Read, Write};

pub const CLSID_INSTALLER: &str = "000c1084-0000-0000-c000-000000000046";
pub const CLSID_PATCH: &str = "000c1086-0000-0000-c000-000000000046";
pub const CLSID_TRANSFORM: &str = "000c1082-0000-0000-c000-000000000046";

/// Reference wiring: Windows code page id -> WHATWG encoding (None = US-ASCII, handled apart).
pub fn ref_encoding(cp: i64) -> Option<Option<&'static Encoding>> {
    use encoding_rs::*;
    Some(Some(match cp {
        0 | 65001 => UTF_8,
        932 => SHIFT_JIS,
        936 => GBK,
        949 => EUC_KR,
        950 | 951 => BIG5,
        1250 => WINDOWS_1250,
        1251 => WINDOWS_1251,
        1252 => WINDOWS_1252,
        1253 => WINDOWS_1253,
        1254 => WINDOWS_1254,
        1255 => WINDOWS_1255,
        1256 => WINDOWS_1256,
        1257 => WINDOWS_1257,
        1258 => WINDOWS_1258,
        10000 => MACINTOSH,
        10007 => X_MAC_CYRILLIC,
        20127 => return Some(None),
        28591 => WINDOWS_1252,
        28592 => ISO_8859_2,
        28593 => ISO_8859_3,
        28594 => ISO_8859_4,
        28595 => ISO_8859_5,
        28596 => ISO_8859_6,
        28597 => ISO_8859_7,
        28598 => ISO_8859_8,
        _ => return None,
    }))
}

pub fn ref_decode(cp: i64, bytes: &[u8]) -> Option<String> {
    match ref_encoding(cp)? {
        None => Some(bytes.iter().map(|&b| if b < 128 { b as char } else { '\u{FFFD}' }).collect()),
        Some(enc) => Some(enc.decode_without_bom_handling(bytes).0.into_owned()),
    }
}

/// Reference encoder: per character, unmappable -> '?'.
pub fn ref_encode(cp: i64, s: &str) -> Option<Vec<u8>> {
    match ref_encoding(cp)? {
        None => Some(s.chars().map(|c| if (c as u32) < 128 { c as u8 } else { b'?' }).collect()),
        Some(enc) => {
            let mut out = Vec::new();
            let mut buf = [0u8; 4];
            for ch in s.chars() {
                let st = ch.encode_utf8(&mut buf);
                let mut e = enc.new_encoder();
                let mut dst = [0u8; 16];
                let (res, _r, w) = e.encode_from_utf8_without_replacement(st, &mut dst, true);
                match res {
                    encoding_rs::EncoderResult::InputEmpty => out.extend_from_slice(&dst[..w]),
                    _ => out.push(b'?'),
                }
            }
            Some(out)
        }
    }
}

// ---------------------------------------------------------------------------------------------
// stream names

fn b64_char(v: u32) -> char {
    let v = v as u8;
    (match v {
        0..=9 => b'0' + v,
        10..=35 => b'A' + (v - 10),
        36..=61 => b'a' + (v - 36),
        62 => b'.',
        _ => b'_',
    }) as char
}
fn b64_val(c: char) -> Option<u32> {
    match c {
        '0'..='9' => Some(c as u32 - '0' as u32),
        'A'..='Z' => Some(c as u32 - 'A' as u32 + 10),
        'a'..='z' => Some(c as u32 - 'a' as u32 + 36),
        '.' => Some(62),
        '_' => Some(63),
        _ => None,
    }
}

/// (name, is_table)
pub fn unpack_name(raw: &str) -> (String, bool) {
    let mut out = String::new();
    let mut it = raw.chars().peekable();
    let mut is_table = false;
    if it.peek() == Some(&'\u{4840}') {
        is_table = true;
        it.next();
    }
    for c in it {
        let v = c as u32;
        if (0x3800..0x4800).contains(&v) {
            out.push(b64_char((v - 0x3800) & 0x3f));
            out.push(b64_char((v - 0x3800) >> 6));
        } else if (0x4800..0x4840).contains(&v) {
            out.push(b64_char(v - 0x4800));
        } else {
            out.push(c);
        }
    }
    (out, is_table)
}

pub fn pack_name(name: &str, is_table: bool) -> String {
    let cs: Vec<char> = name.chars().collect();
    let mut out = String::new();
    if is_table {
        out.push('\u{4840}');
    }
    let mut i = 0;
    while i < cs.len() {
        match b64_val(cs[i]) {
            Some(a) => {
                if i + 1 < cs.len() {
                    if let Some(b) = b64_val(cs[i + 1]) {
                        out.push(char::from_u32(0x3800 + (b << 6) + a).unwrap());
                        i += 2;
                        continue;
                    }
                }
                out.push(char::from_u32(0x4800 + a).unwrap());
                i += 1;
            }
            None => {
                out.push(cs[i]);
                i += 1;
            }
        }
    }
    out
}

// ---------------------------------------------------------------------------------------------
// decoder

#[derive(Clone, Debug, PartialEq)]
pub enum Cell {
    Null,
    Int(i32),
    Ref(u32),
}

#[derive(Clone, Debug)]
pub struct ColT {
    pub name: String,
    pub word: i32,
}
impl ColT {
    pub fn is_str(&self) -> bool {
        self.word & 0x800 != 0
    }
    pub fn width(&self, long: bool) -> Result<usize, String> {
        if self.is_str() {
            Ok(if long { 3 } else { 2 })
        } else {
            match self.word & 0xff {
                4 => Ok(4),
                2 | 1 => Ok(2),
                n => Err(format!("integer column {:?} with field size {}", self.name, n)),
            }
        }
    }
}

#[derive(Clone, Debug)]
pub struct TableImg {
    pub name: String,
    pub cols: Vec<ColT>,
    pub rows: Vec<Vec<Cell>>,
    pub stream_present: bool,
}

#[derive(Clone, Debug)]
pub struct Image {
    pub clsid: String,
    pub cp: i64,
    pub long_refs: bool,
    pub pool: Vec<(String, u16, Vec<u8>)>, // text (reference decoding), refcount, raw bytes
    pub tables: Vec<TableImg>,             // _Tables, _Columns first, then the listed tables
    pub streams: Vec<(String, Vec<u8>)>,   // user streams (unpacked name, contents)
    pub raw_names: Vec<String>,            // every root entry as stored
    pub summary: Option<Vec<u8>>,
    pub has_signature: bool,
}

fn rd_u16(b: &[u8], o: usize) -> Result<u16, String> {
    if o + 2 > b.len() {
        return Err(format!("read past end at {}", o));
    }
    Ok(u16::from_le_bytes([b[o], b[o + 1]]))
}

pub fn parse_pool(pool: &[u8], data: &[u8]) -> Result<(i64, bool, Vec<(u32, u16)>), String> {
    if pool.len() < 4 {
        return Err("_StringPool shorter than its header".into());
    }
    let head = u32::from_le_bytes([pool[0], pool[1], pool[2], pool[3]]);
    let long = head & 0x8000_0000 != 0;
    let cp = (head & 0x7fff_ffff) as i64;
    if (pool.len() - 4) % 4 != 0 {
        return Err("_StringPool is not a whole number of entries".into());
    }
    let mut ents = Vec::new();
    let mut o = 4;
    while o < pool.len() {
        let len = rd_u16(pool, o)? as u32;
        let rc = rd_u16(pool, o + 2)?;
        o += 4;
        if len == 0 && rc > 0 {
            // long-string escape: the next pair is (low 16 bits of length, refcount)
            let lo = rd_u16(pool, o)? as u32;
            let rc2 = rd_u16(pool, o + 2)?;
            o += 4;
            ents.push((((rc as u32) << 16) | lo, rc2));
        } else {
            ents.push((len, rc));
        }
    }
    let total: u64 = ents.iter().map(|e| e.0 as u64).sum();
    if total != data.len() as u64 {
        return Err(format!("_StringPool lengths sum to {} but _StringData has {} bytes", total, data.len()));
    }
    Ok((cp, long, ents))
}

fn parse_rows(bytes: &[u8], cols: &[ColT], long: bool, tname: &str) -> Result<Vec<Vec<Cell>>, String> {
    let mut widths = Vec::new();
    for c in cols {
        widths.push(c.width(long)?);
    }
    let rowsize: usize = widths.iter().sum();
    if rowsize == 0 {
        return Err(format!("table {:?} has no columns", tname));
    }
    if bytes.len() % rowsize != 0 {
        return Err(format!("stream of table {:?}: {} bytes is not a whole number of {}-byte rows", tname, bytes.len(), rowsize));
    }
    let n = bytes.len() / rowsize;
    let mut rows = vec![Vec::with_capacity(cols.len()); n];
    let mut o = 0;
    for (ci, c) in cols.iter().enumerate() {
        for r in rows.iter_mut() {
            let w = widths[ci];
            let cell = if c.is_str() {
                let mut v = bytes[o] as u32 | ((bytes[o + 1] as u32) << 8);
                if w == 3 {
                    v |= (bytes[o + 2] as u32) << 16;
                }
                if v == 0 { Cell::Null } else { Cell::Ref(v) }
            } else if w == 2 {
                let v = u16::from_le_bytes([bytes[o], bytes[o + 1]]);
                if v == 0 { Cell::Null } else { Cell::Int(v as i32 - 0x8000) }
            } else {
                let v = u32::from_le_bytes([bytes[o], bytes[o + 1], bytes[o + 2], bytes[o + 3]]);
                if v == 0 { Cell::Null } else { Cell::Int((v as i64 - 0x8000_0000i64) as i32) }
            };
            r.push(cell);
            o += w;
        }
    }
    Ok(rows)
}

/// Decodes the container.  `pool_texts`: when given, catalog names are resolved through it
/// (the in-memory pool between two saves) instead of through the pool streams of the image.
pub fn decode(bytes: &[u8], pool_texts: Option<&[String]>) -> Result<Image, String> {
    let mut comp = cfb::CompoundFile::open(Cursor::new(bytes.to_vec())).map_err(|e| format!("cfb: {}", e))?;
    let clsid = comp.root_entry().clsid().hyphenated().to_string();
    let mut raw: Vec<(String, bool)> = Vec::new();
    for e in comp.read_root_storage() {
        raw.push((e.name().to_string(), e.is_stream()));
    }
    let read = |comp: &mut cfb::CompoundFile<Cursor<Vec<u8>>>, name: &str| -> Result<Vec<u8>, String> {
        let mut s = comp.open_stream(name).map_err(|e| format!("open {:?}: {}", name, e))?;
        let mut v = Vec::new();
        s.read_to_end(&mut v).map_err(|e| format!("read {:?}: {}", name, e))?;
        Ok(v)
    };
    let pool_raw = read(&mut comp, &pack_name("_StringPool", true))?;
    let data_raw = read(&mut comp, &pack_name("_StringData", true))?;
    let (cp, long, ents) = parse_pool(&pool_raw, &data_raw)?;
    let mut pool = Vec::new();
    let mut o = 0usize;
    for (len, rc) in ents {
        let b = &data_raw[o..o + len as usize];
        o += len as usize;
        let text = ref_decode(cp, b).ok_or_else(|| format!("unknown code page {}", cp))?;
        pool.push((text, rc, b.to_vec()));
    }
    let text_of = |r: u32| -> Result<String, String> {
        let i = r as usize - 1;
        match pool_texts {
            Some(p) => p.get(i).cloned().ok_or_else(|| format!("reference {} beyond the pool", r)),
            None => pool.get(i).map(|e| e.0.clone()).ok_or_else(|| format!("reference {} beyond the pool", r)),
        }
    };
    let exists = |n: &str| raw.iter().any(|(r, s)| *s && r == n);
    let t_cols = vec![ColT { name: "Name".into(), word: 0x2d40 }];
    let c_cols = vec![
        ColT { name: "Table".into(), word: 0x2d40 },
        ColT { name: "Number".into(), word: 0x2502 },
        ColT { name: "Name".into(), word: 0x0d40 },
        ColT { name: "Type".into(), word: 0x0502 },
    ];
    let mut tables = Vec::new();
    let tn = pack_name("_Tables", true);
    let t_present = exists(&tn);
    let t_rows = if t_present { parse_rows(&read(&mut comp, &tn)?, &t_cols, long, "_Tables")? } else { vec![] };
    let cn = pack_name("_Columns", true);
    let c_present = exists(&cn);
    let c_rows = if c_present { parse_rows(&read(&mut comp, &cn)?, &c_cols, long, "_Columns")? } else { vec![] };
    let mut names = Vec::new();
    for r in &t_rows {
        match &r[0] {
            Cell::Ref(id) => names.push(text_of(*id)?),
            _ => return Err("_Tables row with a null name".into()),
        }
    }
    tables.push(TableImg { name: "_Tables".into(), cols: t_cols, rows: t_rows, stream_present: t_present });
    tables.push(TableImg { name: "_Columns".into(), cols: c_cols, rows: c_rows.clone(), stream_present: c_present });
    for tname in &names {
        let mut cols: Vec<(i32, ColT)> = Vec::new();
        for r in &c_rows {
            let t = match &r[0] { Cell::Ref(id) => text_of(*id)?, _ => return Err("_Columns row with null table".into()) };
            if &t != tname {
                continue;
            }
            let num = match &r[1] { Cell::Int(n) => *n, _ => return Err("_Columns row with null number".into()) };
            let cname = match &r[2] { Cell::Ref(id) => text_of(*id)?, _ => return Err("_Columns row with null name".into()) };
            let word = match &r[3] { Cell::Int(n) => *n, _ => return Err("_Columns row with null type".into()) };
            cols.push((num, ColT { name: cname, word }));
        }
        cols.sort_by_key(|c| c.0);
        for (i, c) in cols.iter().enumerate() {
            if c.0 != i as i32 + 1 {
                return Err(format!("columns of table {:?} are not numbered 1..n", tname));
            }
        }
        if cols.is_empty() {
            return Err(format!("table {:?} has no columns in _Columns", tname));
        }
        let cols: Vec<ColT> = cols.into_iter().map(|c| c.1).collect();
        let sn = pack_name(tname, true);
        let present = exists(&sn);
        let rows = if present { parse_rows(&read(&mut comp, &sn)?, &cols, long, tname)? } else { vec![] };
        tables.push(TableImg { name: tname.clone(), cols, rows, stream_present: present });
    }
    for r in &c_rows {
        if let Cell::Ref(id) = &r[0] {
            let t = text_of(*id)?;
            if !names.contains(&t) {
                return Err(format!("_Columns mentions table {:?} which _Tables does not list", t));
            }
        }
    }
    let mut streams = Vec::new();
    let mut summary = None;
    let mut has_signature = false;
    for (rn, is_stream) in &raw {
        if !*is_stream {
            continue;
        }
        if rn == "\u{5}SummaryInformation" {
            summary = Some(read(&mut comp, rn)?);
        } else if rn == "\u{5}DigitalSignature" {
            has_signature = true;
        } else if rn == "\u{5}MsiDigitalSignatureEx" || rn == "\u{5}DocumentSummaryInformation" {
        } else {
            let (n, is_table) = unpack_name(rn);
            if !is_table {
                streams.push((n, read(&mut comp, rn)?));
            }
        }
    }
    Ok(Image {
        clsid,
        cp,
        long_refs: long,
        pool,
        tables,
        streams,
        raw_names: raw.into_iter().map(|r| r.0).collect(),
        summary,
        has_signature,
    })
}

pub fn fnv(b: &[u8]) -> u32 {
    let mut h: u32 = 0x811c9dc5;
    for &x in b {
        h ^= x as u32;
        h = h.wrapping_mul(16777619);
    }
    h & 0x7fff_ffff
}

pub fn cell_json(c: &Cell) -> J {
    match c {
        Cell::Null => json!({"n":0}),
        Cell::Int(i) => json!({"i":i}),
        Cell::Ref(r) => json!({"r":r}),
    }
}

pub fn ptype_of(clsid: &str) -> &'static str {
    match clsid.to_lowercase().as_str() {
        CLSID_INSTALLER => "Installer",
        CLSID_PATCH => "Patch",
        CLSID_TRANSFORM => "Transform",
        _ => "Unknown",
    }
}

impl Image {
    /// The logical image as the TLA+ side reads it.
    pub fn to_json(&self) -> J {
        json!({
            "ptype": ptype_of(&self.clsid),
            "cp": self.cp,
            "longrefs": self.long_refs,
            "pool": self.pool.iter().map(|(s, rc, _)| json!({"s": cps(s), "rc": rc})).collect::<Vec<_>>(),
            "tables": self.tables.iter().map(|t| json!({
                "name": cps(&t.name),
                "present": t.stream_present,
                "words": t.cols.iter().map(|c| json!(c.word)).collect::<Vec<_>>(),
                "cells": t.rows.iter().map(|r| J::Array(r.iter().map(cell_json).collect())).collect::<Vec<_>>(),
            })).collect::<Vec<_>>(),
            "streams": self.streams.iter().map(|(n, b)| json!({"name": cps(n), "data": stream_data_json(b)})).collect::<Vec<_>>(),
            "sig": self.has_signature,
        })
    }
    pub fn table(&self, name: &str) -> Option<&TableImg> {
        self.tables.iter().find(|t| t.name == name)
    }
    /// rows of a table with references resolved through this image's own pool (normalised)
    pub fn resolved_rows(&self, t: &TableImg) -> Vec<J> {
        t.rows
            .iter()
            .map(|r| {
                J::Array(
                    r.iter()
                        .map(|c| match c {
                            Cell::Null => json!({"n":0}),
                            Cell::Int(i) => json!({"i":i}),
                            Cell::Ref(id) => match self.pool.get(*id as usize - 1) {
                                Some(e) if !e.0.is_empty() => json!({"s": cps(&e.0)}),
                                _ => json!({"n":0}),
                            },
                        })
                        .collect(),
                )
            })
            .collect()
    }
}

/// Abstract contents of a user stream (same descriptors as the API projection uses).
pub fn stream_data_json(b: &[u8]) -> J {
    J::String(crate::session::stream_desc(b))
}

// ---------------------------------------------------------------------------------------------
// encoder (for C02: independently encoded databases) -- see encode.rs
pub fn write_stream(comp: &mut cfb::CompoundFile<Cursor<Vec<u8>>>, name: &str, data: &[u8]) -> Result<(), String> {
    let mut s = comp.create_stream(name).map_err(|e| format!("create {:?}: {}", name, e))?;
    s.write_all(data).map_err(|e| e.to_string())?;
    s.flush().map_err(|e| e.to_string())?;
    Ok(())
}
