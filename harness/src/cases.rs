//! Generic runner: reads tagged case lines printed by TLC on stdin, runs each on a worker
//! thread (each worker owns its own context), collects violations and a summary.
use crate::walk::parse_tagged;
use crate::Args;
use serde_json::{json, Value as J};
use std::collections::{BTreeMap, VecDeque};
use std::io::{BufRead, Write};
use std::sync::{Arc, Mutex};

pub struct Outcome {
    pub viol: Option<(&'static str, String)>,
    pub class: String, // counted per class in the summary (non-vacuity)
}

pub fn run<C, S, R>(args: &Args, tag: &'static str, summary_tag: &str, setup: S, run: R) -> i32
where
    S: Fn() -> C + Send + Sync + 'static,
    R: Fn(&mut C, &J, u64) -> Outcome + Send + Sync + 'static,
{
    let threads = args.num("threads", 8) as usize;
    let input: Box<dyn BufRead> = match args.get("cases") {
        Some(p) => Box::new(std::io::BufReader::new(std::fs::File::open(p).expect("cases file"))),
        None => Box::new(std::io::BufReader::new(std::io::stdin())),
    };
    let queue: Arc<Mutex<VecDeque<(u64, String)>>> = Arc::new(Mutex::new(VecDeque::new()));
    let done = Arc::new(Mutex::new(false));
    let viols: Arc<Mutex<Vec<J>>> = Arc::new(Mutex::new(Vec::new()));
    let stats: Arc<Mutex<(u64, BTreeMap<String, u64>, Vec<J>, BTreeMap<String, u64>)>> = Arc::new(Mutex::new((0, BTreeMap::new(), Vec::new(), BTreeMap::new())));
    let setup = Arc::new(setup);
    let run = Arc::new(run);
    let mut hs = Vec::new();
    for _ in 0..threads {
        let (queue, done, viols, stats, setup, run) = (queue.clone(), done.clone(), viols.clone(), stats.clone(), setup.clone(), run.clone());
        hs.push(std::thread::spawn(move || {
            let mut ctx = setup();
            loop {
                let item = queue.lock().unwrap().pop_front();
                match item {
                    Some((n, line)) => {
                        let c = match parse_tagged(&line, tag) {
                            Some(c) => c,
                            None => continue,
                        };
                        let o = run(&mut ctx, &c, n);
                        {
                            let mut st = stats.lock().unwrap();
                            st.0 += 1;
                            *st.1.entry(o.class.clone()).or_insert(0) += 1;
                            if st.2.len() < 3 {
                                st.2.push(c.clone());
                            }
                        }
                        if let Some((kind, what)) = o.viol {
                            // at most 5 violations per signature (kind, class, message without its numbers), so that
                            // many instances of one failure cannot crowd out a different one
                            let site: String = match what.find(".rs:") {
                                Some(i) => what[what[..i].rfind(' ').map(|k| k + 1).unwrap_or(0)..].chars().take_while(|ch| *ch != ' ').collect(),
                                None => what.chars().filter(|ch| !ch.is_ascii_digit()).take(160).collect(),
                            };
                            let sig: String = format!("{}:{}:{}", kind, o.class, site);
                            let mut st = stats.lock().unwrap();
                            let n = st.3.entry(sig).or_insert(0);
                            *n += 1;
                            let keep = *n <= 5;
                            drop(st);
                            let mut vs = viols.lock().unwrap();
                            if keep && vs.len() < 500 {
                                vs.push(json!({"kind": kind, "op": o.class, "what": what, "case": c}));
                            }
                        }
                    }
                    None => {
                        if *done.lock().unwrap() {
                            break;
                        }
                        std::thread::sleep(std::time::Duration::from_millis(2));
                    }
                }
            }
        }));
    }
    let mut n = 0u64;
    let mut other = Vec::new();
    let pre = format!("<<\"{}\", ", tag);
    for line in input.lines() {
        let line = match line {
            Ok(l) => l,
            Err(_) => break,
        };
        if line.starts_with(&pre) {
            loop {
                if queue.lock().unwrap().len() < 20000 {
                    break;
                }
                std::thread::sleep(std::time::Duration::from_millis(5));
            }
            queue.lock().unwrap().push_back((n, line));
            n += 1;
        } else {
            other.push(line);
        }
    }
    *done.lock().unwrap() = true;
    for h in hs {
        let _ = h.join();
    }
    if let Some(p) = args.get("tlc-log") {
        let mut f = std::fs::File::create(p).expect("tlc log");
        for l in &other {
            let _ = writeln!(f, "{}", l);
        }
    }
    let vs = viols.lock().unwrap();
    let st = stats.lock().unwrap();
    println!("{} {}", summary_tag, json!({"cases": st.0, "by_class": st.1, "samples": st.2, "violations": vs.len(), "violations_by_signature": st.3}));
    if let Some(p) = args.get("viol") {
        let mut f = std::fs::File::create(p).expect("viol file");
        for v in vs.iter() {
            let _ = writeln!(f, "{}", v);
        }
    }
    if vs.is_empty() { 0 } else { 1 }
}
