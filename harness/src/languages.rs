//! C17: the observed functions Language::tag / from_tag / from_code, logged for Trace_Language.tla.
use crate::j::cps;
use crate::rnd::Rng;
use crate::Args;
use msi::Language;
use serde_json::json;
use std::collections::BTreeSet;
use std::io::Write;
use std::panic::{catch_unwind, AssertUnwindSafe};

pub fn main(args: &Args) -> i32 {
    let seed = args.num("seed", 1);
    let nrandom = args.num("random", 3000);
    let mut rng = Rng::new(seed);
    let mut out = std::io::BufWriter::new(std::fs::File::create(args.get("trace").expect("--trace")).expect("trace"));
    let mut tags: BTreeSet<String> = BTreeSet::new();
    let mut panics = 0u64;
    for c in 0..=65535u16 {
        let r = catch_unwind(AssertUnwindSafe(|| {
            let l = Language::from_code(c);
            (l.tag().to_string(), l.code())
        }));
        let (t, back) = match r {
            Ok(x) => x,
            Err(_) => {
                panics += 1;
                ("<panic>".to_string(), 0)
            }
        };
        tags.insert(t.clone());
        let _ = writeln!(out, "{}", json!({"k":"t","c":c,"tag":cps(&t),"back":back}));
    }
    // from_tag of: every tag seen, reference tags, bounded-exhaustive and random tag strings
    let mut queries: BTreeSet<String> = tags.clone();
    let langs: Vec<String> = tags.iter().filter(|t| !t.contains('-') && t.as_str() != "und").cloned().collect();
    for t in ["en-US", "en-GB", "fr-FR", "fr-CA", "de-DE", "ja-JP", "it-IT", "es-ES", "es-MX", "zh-CN", "zh-TW", "ko-KR", "ru-RU", "pt-BR", "pt-PT", "nl-NL", "nl-BE",
              "sv-SE", "nb-NO", "da-DK", "fi-FI", "pl-PL", "cs-CZ", "hu-HU", "el-GR", "tr-TR", "he-IL", "ar-SA", "th-TH", "vi-VN", "id-ID", "uk-UA", "en-AU", "en-CA",
              "fr-CH", "de-CH", "de-AT", "en", "fr", "de", "ja", "", "-", "en-", "-US", "xx", "xx-YY", "en-ZZ", "zh-XX", "EN-us", "en_US", "und", "e", "english"] {
        queries.insert(t.to_string());
    }
    // every known language with every region of 0..2 letters from a small alphabet, and suffixes of known regions
    let alpha = ['A', 'S', 'U', 'Z', 'a'];
    for l in &langs {
        queries.insert(format!("{}-", l));
        for a in alpha {
            queries.insert(format!("{}-{}", l, a));
            for b in alpha {
                queries.insert(format!("{}-{}{}", l, a, b));
            }
        }
    }
    for t in tags.iter().filter(|t| t.contains('-')) {
        let (l, r) = t.split_once('-').unwrap();
        for k in 1..r.len() {
            if r.is_char_boundary(k) {
                queries.insert(format!("{}-{}", l, &r[k..]));
                queries.insert(format!("{}-{}", l, &r[..k]));
            }
        }
        queries.insert(format!("{}-x-{}", l, r));
    }
    // every two-letter and three-letter lowercase language code, bare and with a region
    for a in 'a'..='z' {
        for b in 'a'..='z' {
            queries.insert(format!("{}{}", a, b));
            queries.insert(format!("{}{}-US", a, b));
            for c in 'a'..='z' {
                queries.insert(format!("{}{}{}", a, b, c));
            }
        }
    }
    let letters: Vec<char> = "abcdefghijklmnopqrstuvwxyzABCDEFGHIJKLMNOPQRSTUVWXYZ-0".chars().collect();
    for _ in 0..nrandom {
        let n = 1 + rng.below(7);
        let s: String = (0..n).map(|_| *rng.pick(&letters)).collect();
        queries.insert(s);
        if !langs.is_empty() {
            let l = rng.pick(&langs).clone();
            let n = rng.below(4);
            let r: String = (0..n).map(|_| *rng.pick(&letters)).collect();
            queries.insert(format!("{}-{}", l, r));
        }
    }
    let mut nq = 0u64;
    for q in &queries {
        if !q.is_ascii() {
            continue;
        }
        let r = catch_unwind(AssertUnwindSafe(|| Language::from_tag(q).code()));
        let c = match r {
            Ok(c) => c as i64,
            Err(_) => {
                panics += 1;
                -1
            }
        };
        let _ = writeln!(out, "{}", json!({"k":"f","tag":cps(q),"c":c}));
        nq += 1;
    }
    println!("LANGUAGES {}", json!({"codes": 65536, "distinct_tags": tags.len(), "from_tag_queries": nq, "panics": panics}));
    0
}
