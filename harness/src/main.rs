mod codec;
mod j;
mod media;
mod propset;
mod session;
mod walk;
mod rnd;
mod random;
mod exprs;
mod cases;
mod queries;
mod validity;
mod schemas;
mod printing;
mod timestamps;
mod summary;
mod languages;
mod codepages;
mod faults;
mod limits;
mod encode;
mod images;
mod corrupt;
mod ffi;
mod randexpr;
mod streamio;

use std::collections::HashMap;

pub struct Args {
    pub cmd: String,
    pub kv: HashMap<String, String>,
}
impl Args {
    pub fn get(&self, k: &str) -> Option<&str> {
        self.kv.get(k).map(|s| s.as_str())
    }
    pub fn num(&self, k: &str, d: u64) -> u64 {
        self.get(k).and_then(|s| s.parse().ok()).unwrap_or(d)
    }
}

fn main() {
    let argv: Vec<String> = std::env::args().collect();
    if argv.len() < 2 {
        eprintln!("usage: mv <walk|random|...> [--key value]...");
        std::process::exit(2);
    }
    let mut kv = HashMap::new();
    let mut i = 2;
    while i < argv.len() {
        if let Some(k) = argv[i].strip_prefix("--") {
            if i + 1 < argv.len() && !argv[i + 1].starts_with("--") {
                kv.insert(k.to_string(), argv[i + 1].clone());
                i += 2;
            } else {
                kv.insert(k.to_string(), "1".to_string());
                i += 1;
            }
        } else {
            i += 1;
        }
    }
    let args = Args { cmd: argv[1].clone(), kv };
    // panics in the code under test are data, not harness failures: keep them quiet
    if args.get("loud").is_none() {
        std::panic::set_hook(Box::new(|_| {}));
    }
    let code = match args.cmd.as_str() {
        "walk" => walk::main(&args),
        "random" => random::main(&args),
        "exprs" => exprs::main(&args),
        "queries" => queries::main(&args),
        "validity" => validity::main(&args),
        "schemas" => schemas::main(&args),
        "printing" => printing::main(&args),
        "timestamps" => timestamps::main(&args),
        "summary" => summary::main(&args),
        "languages" => languages::main(&args),
        "codepages" => codepages::main(&args),
        "faults" => faults::main(&args),
        "limits" => limits::main(&args),
        "images" => images::main(&args),
        "corrupt" => corrupt::main(&args),
        "ffi" => ffi::main(&args),
        "randexpr" => randexpr::main(&args),
        "streamio" => streamio::main(&args),
        "summary-random" => summary::random_main(&args),
        "repr" => {
            // representability facts (reference encoder) for the characters the bounded models use
            for cp in [65001i64, 1252, 932, 936, 949, 950, 951, 20127] {
                let v: Vec<String> = [233u32, 12354, 20013].iter().map(|c| {
                    let s = char::from_u32(*c).unwrap().to_string();
                    format!("{}:{}", c, codec::ref_encode(cp, &s).map(|b| b != b"?").unwrap_or(false))
                }).collect();
                println!("REPR {} {}", cp, v.join(" "));
            }
            0
        }
        "validity-trace" => validity::trace_main(&args),
        other => {
            eprintln!("unknown command {}", other);
            2
        }
    };
    std::process::exit(code);
}
