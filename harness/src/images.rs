//! C02: every image emitted by TLC is materialised by the independent encoder and read three
//! ways: by the independent decoder (must reproduce the image: encoder and decoder validate each
//! other, a disagreement is a HARNESS error), and by Package::open, whose projection must equal
//! the state the specification says the image denotes.
use crate::cases::{self, Outcome};
use crate::codec::{self, cell_json};
use crate::encode::encode_image;
use crate::j::{canon_state, cps, from_cps};
use crate::media::Medium;
use crate::session::Session;
use crate::walk::diff;
use crate::Args;
use serde_json::{json, Value as J};
use std::panic::{catch_unwind, AssertUnwindSafe};

fn run_case(_c: &mut (), c: &J, _n: u64) -> Outcome {
    let img = &c["img"];
    let ch = &img["c"];
    let class = format!("refw{}-cp{}-holes:{}-val:{}-sorted:{}-ps:{}", ch["refw"], ch["cpid"], ch["holes"].as_str().unwrap_or("?"), ch["validation"], !ch["unsorted"].as_bool().unwrap_or(false), ch["pslayout"].as_str().or(img["pslayout"].as_str()).unwrap_or("?"));
    let bytes = match encode_image(img) {
        Ok(b) => b,
        Err(e) => return Outcome { viol: Some(("harness", format!("encoder failed: {}", e))), class },
    };
    // (1) encoder vs decoder
    match codec::decode(&bytes, None) {
        Ok(d) => {
            let pool_ok = d.pool.len() == img["pool"].as_array().map(|a| a.len()).unwrap_or(0)
                && d.pool.iter().zip(img["pool"].as_array().unwrap().iter()).all(|(a, b)| a.0 == from_cps(&b["s"]) && a.1 as u64 == b["rc"].as_u64().unwrap_or(0));
            let mut tabs_ok = true;
            for t in img["tables"].as_array().cloned().unwrap_or_default() {
                let name = from_cps(&t["name"]);
                match d.table(&name) {
                    Some(dt) => {
                        let cells: Vec<J> = dt.rows.iter().map(|r| J::Array(r.iter().map(cell_json).collect())).collect();
                        if J::Array(cells) != t["cells"] {
                            tabs_ok = false;
                        }
                    }
                    None => tabs_ok = false,
                }
            }
            if !pool_ok || !tabs_ok || d.cp != img["cp"].as_i64().unwrap_or(-1) || d.long_refs != img["longrefs"].as_bool().unwrap_or(false) {
                return Outcome { viol: Some(("harness", "independent encoder and decoder disagree about the image".into())), class };
            }
        }
        Err(e) => return Outcome { viol: Some(("harness", format!("independent decoder rejects the encoder's output: {}", e))), class },
    }
    // (2) the library
    let mut s = Session::empty();
    s.med = Medium::new(bytes);
    let opened = catch_unwind(AssertUnwindSafe(|| msi::Package::open(s.med.handle())));
    match opened {
        Err(_) => Outcome { viol: Some(("image-panic", "Package::open panicked on a well-formed database".into())), class },
        Ok(Err(e)) => Outcome { viol: Some(("image-open", format!("Package::open refuses a well-formed database: {}", e))), class },
        Ok(Ok(p)) => {
            s.pkg = Some(p);
            match s.project() {
                Ok(got) => {
                    let want = canon_state(&c["want"]);
                    if got != want {
                        Outcome { viol: Some(("image-state", format!("opened database differs from what was encoded: {}", diff(&got, &want)))), class }
                    } else {
                        Outcome { viol: None, class }
                    }
                }
                Err(e) => Outcome { viol: Some(("image-read", format!("reading the opened database failed: {}", e))), class },
            }
        }
    }
}

pub fn main(args: &Args) -> i32 {
    let _ = (cps(""), json!(0));
    cases::run(args, "IMAGE", "IMAGES", || (), run_case)
}
