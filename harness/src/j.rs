//! JSON conventions shared with the TLA+ side.
//! Strings that are data travel as arrays of code points; cell values are tagged objects
//! {"n":0} | {"i":k} | {"s":[..]}.
use msi::{Category, Column, ColumnType, Expr, Value};
use serde_json::{json, Map, Value as J};
use std::str::FromStr;

pub fn cps(s: &str) -> J {
    J::Array(s.chars().map(|c| json!(c as u32)).collect())
}

pub fn from_cps(j: &J) -> String {
    j.as_array()
        .map(|a| {
            a.iter()
                .map(|x| char::from_u32(x.as_u64().unwrap_or(0xFFFD) as u32).unwrap_or('\u{FFFD}'))
                .collect()
        })
        .unwrap_or_default()
}

pub fn val(v: &Value) -> J {
    match v {
        Value::Null => json!({"n":0}),
        Value::Int(i) => json!({"i":i}),
        Value::Str(s) => json!({"s":cps(s)}),
    }
}

/// what a stored cell reads back as: "" and null are one value
pub fn val_norm(v: &Value) -> J {
    match v {
        Value::Str(s) if s.is_empty() => json!({"n":0}),
        _ => val(v),
    }
}

pub fn to_val(j: &J) -> Value {
    if let Some(i) = j.get("i") {
        Value::Int(i.as_i64().unwrap() as i32)
    } else if let Some(s) = j.get("s") {
        Value::Str(from_cps(s))
    } else {
        Value::Null
    }
}

pub fn col(c: &Column, fk: Option<(String, i32)>) -> J {
    let (ty, width) = match c.coltype() {
        ColumnType::Int16 => ("i16", 0),
        ColumnType::Int32 => ("i32", 0),
        ColumnType::Str(n) => ("s", n),
    };
    json!({
        "name": cps(c.name()), "type": ty, "width": width,
        "nullable": c.is_nullable(), "key": c.is_primary_key(), "loc": c.is_localizable(),
        "range": match c.value_range() { Some((a,b)) => json!([a,b]), None => json!([]) },
        "fk": match fk { Some((t,n)) => json!([cps(&t), n]), None => json!([]) },
        "cat": match c.category() { Some(cat) => cps(&cat.to_string()), None => json!([]) },
        "enum": match c.enum_values() { Some(vs) => J::Array(vs.iter().map(|s| cps(s)).collect()), None => json!([]) },
    })
}

pub fn to_col(j: &J) -> Column {
    let mut b = Column::build(from_cps(&j["name"]));
    if j["nullable"].as_bool().unwrap_or(false) {
        b = b.nullable();
    }
    if j["key"].as_bool().unwrap_or(false) {
        b = b.primary_key();
    }
    if j["loc"].as_bool().unwrap_or(false) {
        b = b.localizable();
    }
    if let Some(r) = j["range"].as_array() {
        if r.len() == 2 {
            b = b.range(r[0].as_i64().unwrap() as i32, r[1].as_i64().unwrap() as i32);
        }
    }
    if let Some(f) = j["fk"].as_array() {
        if f.len() == 2 {
            b = b.foreign_key(&from_cps(&f[0]), f[1].as_i64().unwrap() as i32);
        }
    }
    if let Some(c) = j["cat"].as_array() {
        if !c.is_empty() {
            if let Ok(cat) = Category::from_str(&from_cps(&j["cat"])) {
                b = b.category(cat);
            }
        }
    }
    if let Some(e) = j["enum"].as_array() {
        if !e.is_empty() {
            let vs: Vec<String> = e.iter().map(from_cps).collect();
            let refs: Vec<&str> = vs.iter().map(|s| s.as_str()).collect();
            b = b.enum_values(&refs);
        }
    }
    match j["type"].as_str().unwrap_or("s") {
        "i16" => b.int16(),
        "i32" => b.int32(),
        _ => b.string(j["width"].as_u64().unwrap_or(0) as usize),
    }
}

pub fn to_expr(j: &J) -> Expr {
    if let Some(v) = j.get("lit") {
        match to_val(v) {
            Value::Null => Expr::null(),
            Value::Int(i) => Expr::integer(i),
            Value::Str(s) => Expr::string(s),
        }
    } else if let Some(c) = j.get("col") {
        Expr::col(from_cps(c))
    } else if let Some(op) = j.get("un") {
        let a = to_expr(&j["a"]);
        match op.as_str().unwrap() {
            "neg" => -a,
            "bitnot" => a.bitinv(),
            _ => a.not(),
        }
    } else {
        let l = to_expr(&j["l"]);
        let r = to_expr(&j["r"]);
        match j["bin"].as_str().unwrap() {
            "eq" => l.eq(r),
            "ne" => l.ne(r),
            "lt" => l.lt(r),
            "le" => l.le(r),
            "gt" => l.gt(r),
            "ge" => l.ge(r),
            "add" => l + r,
            "sub" => l - r,
            "mul" => l * r,
            "div" => l / r,
            "band" => l & r,
            "bor" => l | r,
            "bxor" => l ^ r,
            "shl" => l << r,
            "shr" => l >> r,
            "and" => l.and(r),
            _ => l.or(r),
        }
    }
}

/// Is this the condition of a statement without WHERE ({"lit":{"i":1}})?
pub fn is_true_lit(j: &J) -> bool {
    j.get("lit").and_then(|v| v.get("i")).and_then(|i| i.as_i64()) == Some(1)
}

/// Canonical form for comparing abstract states: object keys sorted (serde_json's map is a BTreeMap
/// by default), tables and streams sorted by name.
pub fn canon_state(j: &J) -> J {
    let mut m = j.as_object().cloned().unwrap_or_else(Map::new);
    for k in ["tables", "streams"] {
        if let Some(J::Array(a)) = m.get(k).cloned() {
            let mut a = a;
            a.sort_by(|x, y| x["name"].to_string().cmp(&y["name"].to_string()));
            m.insert(k.to_string(), J::Array(a));
        }
    }
    J::Object(m)
}
