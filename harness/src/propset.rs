//! Independent parser of the \u{5}SummaryInformation property set (from the format description),
//! strict about layout: offsets 4-byte aligned, values contiguous, section size exact.
use crate::codec::ref_decode;
use crate::j::cps;
use serde_json::{json, Map, Value as J};

#[derive(Clone, Debug, PartialEq)]
pub enum PV {
    I2(i16),
    I4(i32),
    Str(Vec<u8>),
    Time(u64),
}

pub struct Parsed {
    pub props: Vec<(u32, PV)>,
    pub layout_errors: Vec<String>,
}

fn u16at(b: &[u8], o: usize) -> Result<u16, String> {
    b.get(o..o + 2).map(|s| u16::from_le_bytes([s[0], s[1]])).ok_or_else(|| format!("u16 at {} beyond end", o))
}
fn u32at(b: &[u8], o: usize) -> Result<u32, String> {
    b.get(o..o + 4).map(|s| u32::from_le_bytes([s[0], s[1], s[2], s[3]])).ok_or_else(|| format!("u32 at {} beyond end", o))
}

pub const FMTID: [u8; 16] = *b"\xe0\x85\x9f\xf2\xf9\x4f\x68\x10\xab\x91\x08\x00\x2b\x27\xb3\xd9";

pub fn parse(b: &[u8]) -> Result<Parsed, String> {
    let mut errs = Vec::new();
    if u16at(b, 0)? != 0xFFFE {
        return Err("byte-order mark is not FFFE".into());
    }
    let version = u16at(b, 2)?;
    if version > 1 {
        errs.push(format!("version {}", version));
    }
    let nsec = u32at(b, 24)?;
    if nsec < 1 {
        return Err("no section".into());
    }
    if b.get(28..44) != Some(&FMTID[..]) {
        return Err("wrong FMTID".into());
    }
    let so = u32at(b, 44)? as usize;
    if so % 4 != 0 {
        errs.push(format!("section offset {} not aligned", so));
    }
    let size = u32at(b, so)? as usize;
    let count = u32at(b, so + 4)? as usize;
    if count > 10_000 {
        return Err("absurd property count".into());
    }
    let mut ents = Vec::new();
    for i in 0..count {
        let id = u32at(b, so + 8 + 8 * i)?;
        let off = u32at(b, so + 12 + 8 * i)? as usize;
        ents.push((id, off));
    }
    let mut props = Vec::new();
    let mut extents: Vec<(usize, usize)> = Vec::new();
    for (id, off) in &ents {
        if off % 4 != 0 {
            errs.push(format!("property {} offset {} not 4-byte aligned", id, off));
        }
        let p = so + off;
        let ty = u32at(b, p)?;
        let (v, len) = match ty {
            2 => (PV::I2(u16at(b, p + 4)? as i16), 8),
            3 => (PV::I4(u32at(b, p + 4)? as i32), 8),
            30 => {
                let n = u32at(b, p + 4)? as usize;
                if n == 0 {
                    return Err(format!("property {} string length 0 (no terminator)", id));
                }
                let s = b.get(p + 8..p + 8 + n).ok_or_else(|| format!("property {} string beyond end", id))?;
                if s[n - 1] != 0 {
                    errs.push(format!("property {} string not NUL-terminated", id));
                }
                (PV::Str(s[..n - 1].to_vec()), (8 + n + 3) / 4 * 4)
            }
            64 => {
                let lo = u32at(b, p + 4)? as u64;
                let hi = u32at(b, p + 8)? as u64;
                (PV::Time((hi << 32) | lo), 12)
            }
            t => return Err(format!("property {} has unsupported type {}", id, t)),
        };
        extents.push((*off, *off + len));
        props.push((*id, v));
    }
    // contiguity: values start right after the directory and follow each other; section size exact
    let mut ex = extents.clone();
    ex.sort();
    let mut cur = 8 + 8 * count;
    for (a, e) in &ex {
        if *a != cur {
            errs.push(format!("value at offset {} but previous extent ends at {}", a, cur));
        }
        cur = *e;
    }
    if cur != size {
        errs.push(format!("section size {} but values end at {}", size, cur));
    }
    if so + size != b.len() {
        errs.push(format!("stream length {} but section ends at {}", b.len(), so + size));
    }
    let mut ids: Vec<u32> = ents.iter().map(|e| e.0).collect();
    ids.sort();
    ids.dedup();
    if ids.len() != ents.len() {
        errs.push("duplicate property id".into());
    }
    Ok(Parsed { props, layout_errors: errs })
}

fn absent() -> J {
    json!({"absent":0})
}

/// The same shape as session::summary_json, computed from raw bytes only.
pub fn summary_json(b: &[u8]) -> Result<(J, Vec<String>), String> {
    let p = parse(b)?;
    let get = |id: u32| p.props.iter().find(|x| x.0 == id).map(|x| x.1.clone());
    let cp: i64 = match get(1) {
        Some(PV::I2(v)) => (v as u16) as i64,
        Some(PV::I4(v)) => v as i64,
        _ => 0,
    };
    let dec = |v: Option<PV>| -> Option<String> {
        match v {
            Some(PV::Str(bytes)) => ref_decode(cp, &bytes),
            _ => None,
        }
    };
    let s = |v: Option<String>| match v {
        Some(t) => json!({"s": cps(&t)}),
        None => absent(),
    };
    let template = dec(get(7));
    let (arch, langs) = match &template {
        Some(t) => {
            let (a, l) = match t.split_once(';') {
                Some((a, l)) => (a.to_string(), l.to_string()),
                None => (t.clone(), String::new()),
            };
            let codes: Vec<u16> = l.split(',').filter_map(|c| c.parse::<u16>().ok()).collect();
            (if a.is_empty() { None } else { Some(a) }, codes)
        }
        None => (None, vec![]),
    };
    let uuid = dec(get(9)).and_then(|t| {
        let t = t.trim_start_matches('{').trim_end_matches('}').to_string();
        uuid::Uuid::parse_str(&t).ok().map(|u| u.hyphenated().to_string())
    });
    let mut m = Map::new();
    m.insert("arch".into(), s(arch));
    m.insert("author".into(), s(dec(get(4))));
    m.insert("codepage".into(), json!({"i": if cp == 0 { 65001 } else { cp }}));
    m.insert("comments".into(), s(dec(get(6))));
    m.insert("creating_application".into(), s(dec(get(18))));
    m.insert(
        "creation_time".into(),
        match get(12) {
            Some(PV::Time(t)) => json!({"t": t.to_string()}),
            _ => absent(),
        },
    );
    m.insert("languages".into(), if langs.is_empty() { absent() } else { json!({"l": langs}) });
    m.insert("subject".into(), s(dec(get(3))));
    m.insert("title".into(), s(dec(get(2))));
    m.insert("uuid".into(), s(uuid));
    m.insert(
        "word_count".into(),
        match get(15) {
            Some(PV::I4(v)) => json!({"i": v}),
            _ => absent(),
        },
    );
    Ok((J::Object(m), p.layout_errors))
}
