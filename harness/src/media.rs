//! Media: a shared in-memory medium whose bytes stay observable while a package owns it
//! (crash-after-flush observation), with call counters and fault injection.
use std::cell::RefCell;
use std::io::{self, Read, Seek, SeekFrom, Write};
use std::rc::Rc;

#[derive(Clone, Copy, PartialEq, Eq, Debug)]
pub enum Kind {
    Write,
    Read,
    Seek,
}

#[derive(Clone, Copy, Debug)]
pub struct Fault {
    pub kind: Kind,
    pub k: u64,           // index (0-based) of the call of that kind that fails
    pub persistent: bool, // false: only call k fails; true: k and all later calls fail
    pub ekind: u8,        // which io::ErrorKind the failing call reports (see EKINDS)
}

/// The kinds of error a medium may report.  NotFound and AlreadyExists are kinds that code tends to MATCH on
/// ("nothing to remove", "already there"): coming from the medium they are failures like any other.
pub const EKINDS: [io::ErrorKind; 10] = [io::ErrorKind::Other, io::ErrorKind::NotFound, io::ErrorKind::PermissionDenied, io::ErrorKind::AlreadyExists,
                                         io::ErrorKind::WriteZero, io::ErrorKind::UnexpectedEof, io::ErrorKind::InvalidData,
                                         // kinds that invite a retry; Interrupted (last) only for transient faults: std's own
                                         // write_all / read_exact loops retry it for ever
                                         io::ErrorKind::TimedOut, io::ErrorKind::WouldBlock, io::ErrorKind::Interrupted];

#[derive(Default, Clone, Copy, Debug, PartialEq, Eq)]
pub struct Counters {
    pub writes: u64,
    pub reads: u64,
    pub seeks: u64,
    pub flushes: u64,
    pub faults: u64,
}

pub struct Inner {
    pub data: Vec<u8>,
    /// what the medium held at its last flush() (kept only while `data` has been written since)
    durable: Vec<u8>,
    synced: bool,
    pub c: Counters,
    pub fault: Option<Fault>,
}

#[derive(Clone)]
pub struct Medium {
    pub inner: Rc<RefCell<Inner>>,
    pos: u64,
}

impl Medium {
    pub fn new(data: Vec<u8>) -> Medium {
        Medium { inner: Rc::new(RefCell::new(Inner { data, durable: Vec::new(), synced: true, c: Counters::default(), fault: None })), pos: 0 }
    }
    /// a second handle on the same bytes (position 0)
    pub fn handle(&self) -> Medium {
        Medium { inner: self.inner.clone(), pos: 0 }
    }
    pub fn snap(&self) -> Vec<u8> {
        self.inner.borrow().data.clone()
    }
    /// The bytes that survive a crash of a medium that defers writes until flush(): the contents at
    /// the last successful flush() of the medium (all of them when nothing was written since).
    pub fn snap_durable(&self) -> Vec<u8> {
        let g = self.inner.borrow();
        if g.synced { g.data.clone() } else { g.durable.clone() }
    }
    pub fn counters(&self) -> Counters {
        self.inner.borrow().c
    }
    pub fn reset_counters(&self) {
        self.inner.borrow_mut().c = Counters::default();
    }
    pub fn set_fault(&self, f: Option<Fault>) {
        self.inner.borrow_mut().fault = f;
    }
    fn check(inner: &mut Inner, kind: Kind, idx: u64) -> io::Result<()> {
        if let Some(f) = inner.fault {
            if f.kind == kind && (idx == f.k || (f.persistent && idx > f.k)) {
                inner.c.faults += 1;
                return Err(io::Error::new(EKINDS[f.ekind as usize % EKINDS.len()], "injected fault"));
            }
        }
        Ok(())
    }
}

impl Read for Medium {
    fn read(&mut self, buf: &mut [u8]) -> io::Result<usize> {
        let mut g = self.inner.borrow_mut();
        let idx = g.c.reads;
        g.c.reads += 1;
        Medium::check(&mut g, Kind::Read, idx)?;
        let len = g.data.len() as u64;
        if self.pos >= len {
            return Ok(0);
        }
        let n = std::cmp::min(buf.len() as u64, len - self.pos) as usize;
        buf[..n].copy_from_slice(&g.data[self.pos as usize..self.pos as usize + n]);
        self.pos += n as u64;
        Ok(n)
    }
}

impl Write for Medium {
    fn write(&mut self, buf: &[u8]) -> io::Result<usize> {
        let mut g = self.inner.borrow_mut();
        let idx = g.c.writes;
        g.c.writes += 1;
        Medium::check(&mut g, Kind::Write, idx)?;
        if g.synced {
            g.durable = g.data.clone();
            g.synced = false;
        }
        let end = self.pos as usize + buf.len();
        if g.data.len() < end {
            g.data.resize(end, 0);
        }
        g.data[self.pos as usize..end].copy_from_slice(buf);
        self.pos = end as u64;
        Ok(buf.len())
    }
    fn flush(&mut self) -> io::Result<()> {
        let mut g = self.inner.borrow_mut();
        g.c.flushes += 1;
        g.synced = true;
        g.durable = Vec::new();
        Ok(())
    }
}

impl Seek for Medium {
    fn seek(&mut self, from: SeekFrom) -> io::Result<u64> {
        let mut g = self.inner.borrow_mut();
        let idx = g.c.seeks;
        g.c.seeks += 1;
        Medium::check(&mut g, Kind::Seek, idx)?;
        let len = g.data.len() as i64;
        let np = match from {
            SeekFrom::Start(p) => p as i64,
            SeekFrom::End(d) => len + d,
            SeekFrom::Current(d) => self.pos as i64 + d,
        };
        if np < 0 {
            return Err(io::Error::new(io::ErrorKind::InvalidInput, "seek before start"));
        }
        self.pos = np as u64;
        Ok(self.pos)
    }
}
