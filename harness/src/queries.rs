//! C12 / C03: select trees enumerated and evaluated by TLC (MC_Query.tla), run on the library.
use crate::cases::{self, Outcome};
use crate::j::{self, cps, from_cps};
use crate::session::Session;
use crate::Args;
use msi::{Column, Delete, Insert, Select, Value};
use serde_json::{json, Value as J};
use std::panic::{catch_unwind, AssertUnwindSafe};

pub struct Ctx {
    sess: Session,
    current: String,
}

pub fn to_select(q: &J) -> Select {
    if let Some(t) = q.get("table") {
        Select::table(from_cps(t))
    } else if let Some(kind) = q.get("join") {
        let l = to_select(&q["l"]);
        let r = to_select(&q["r"]);
        let on = j::to_expr(&q["on"]);
        if kind == "left" { l.left_join(r, on) } else { l.inner_join(r, on) }
    } else {
        let mut s = to_select(&q["sel"]);
        let cols: Vec<String> = q["cols"].as_array().cloned().unwrap_or_default().iter().map(from_cps).collect();
        if !cols.is_empty() {
            s = s.columns(&cols);
        }
        if !j::is_true_lit(&q["cond"]) {
            s = s.with(j::to_expr(&q["cond"]));
        }
        s
    }
}

fn setup() -> Ctx {
    let mut sess = Session::empty();
    sess.exec(&json!({"op":"Create","args":{"ptype":"Installer"}}));
    let p = sess.pkg.as_mut().unwrap();
    p.create_table("A", vec![Column::build("K").primary_key().int16(), Column::build("V").nullable().int16()]).unwrap();
    p.create_table("B", vec![Column::build("K").primary_key().int16(), Column::build("W").nullable().int16()]).unwrap();
    Ctx { sess, current: String::new() }
}

fn load(ctx: &mut Ctx, db: &J) -> Result<(), String> {
    let p = ctx.sess.pkg.as_mut().unwrap();
    for (t, k) in [("A", "a"), ("B", "b")] {
        p.delete_rows(Delete::from(t)).map_err(|e| e.to_string())?;
        let rows: Vec<Vec<Value>> = db[k].as_array().cloned().unwrap_or_default().iter().map(|r| r.as_array().unwrap().iter().map(j::to_val).collect()).collect();
        if !rows.is_empty() {
            p.insert_rows(Insert::into(t).rows(rows)).map_err(|e| e.to_string())?;
        }
    }
    ctx.current = db.to_string();
    Ok(())
}

fn shape(q: &J) -> String {
    if q.get("table").is_some() {
        "table".into()
    } else if let Some(k) = q.get("join") {
        format!("{}-join({},{})", k.as_str().unwrap_or("?"), shape(&q["l"]), shape(&q["r"]))
    } else {
        format!("select({})", shape(&q["sel"]))
    }
}

fn run_case(ctx: &mut Ctx, c: &J, _n: u64) -> Outcome {
    let class = format!("{}:{}", shape(&c["q"]), if c["want"].get("err").is_some() { "Err" } else { "Ok" });
    if ctx.current != c["db"].to_string() {
        if let Err(e) = load(ctx, &c["db"]) {
            return Outcome { viol: Some(("harness", e)), class };
        }
    }
    let p = ctx.sess.pkg.as_mut().unwrap();
    let r = catch_unwind(AssertUnwindSafe(|| {
        let q = to_select(&c["q"]);
        match p.select_rows(q) {
            Ok(mut rows) => {
                let cols: Vec<J> = rows.columns().iter().map(|c| json!({"name": cps(c.name()), "nullable": c.is_nullable()})).collect();
                let n0 = rows.len();
                let mut out = Vec::new();
                let mut lenok = true;
                let mut byname = true;
                let names: Vec<String> = rows.columns().iter().map(|c| c.name().to_string()).collect();
                while let Some(r) = rows.next() {
                    if rows.len() + out.len() + 1 != n0 {
                        lenok = false;
                    }
                    // Row::len(), Row[name]: a name denotes the FIRST result column that carries it (self-joins and
                    // repeated projections repeat names); has_column agrees
                    if r.len() != names.len() {
                        lenok = false;
                    }
                    for name in names.iter() {
                        let first = names.iter().position(|n| n == name).unwrap();
                        if !r.has_column(name) || r[name.as_str()] != r[first] {
                            byname = false;
                        }
                    }
                    if r.has_column("No.Such") {
                        byname = false;
                    }
                    out.push(J::Array((0..r.len()).map(|i| j::val_norm(&r[i])).collect()));
                }
                // the iterator protocol beyond next(): after one next(), nth(1) skips exactly one further row, len() follows
                let mut lenok = lenok && out.len() == n0;
                if n0 >= 3 {
                    if let Ok(mut again) = p.select_rows(to_select(&c["q"])) {
                        let first = again.next().map(|r| J::Array((0..r.len()).map(|i| j::val_norm(&r[i])).collect()));
                        let third = again.nth(1).map(|r| J::Array((0..r.len()).map(|i| j::val_norm(&r[i])).collect()));
                        let left = again.len();
                        let rest = again.count();
                        if first.as_ref() != out.first() || third.as_ref() != out.get(2) || left != n0 - 3 || rest != n0 - 3 {
                            lenok = false;
                        }
                    }
                }
                Ok((json!({"cols": cols, "rows": out}), lenok, byname))
            }
            Err(e) => Err(e.to_string()),
        }
    }));
    let viol = match r {
        Err(_) => Some(("query-panic", "select_rows panicked".to_string())),
        Ok(Err(e)) => {
            if c["want"].get("err").is_some() { None } else { Some(("query-res", format!("select failed ({}) where the specification gives a result", e))) }
        }
        Ok(Ok((got, lenok, byname))) => {
            if c["want"].get("err").is_some() {
                Some(("query-res", "select succeeded where the specification says Err (unknown table or column)".to_string()))
            } else if got != c["want"] {
                Some(("query-rows", format!("result differs: {}", crate::walk::diff(&got, &c["want"]))))
            } else if !lenok {
                Some(("query-len", "Rows::len() / Row::len() disagree with the rows and columns yielded".to_string()))
            } else if !byname {
                Some(("query-byname", "Row[name] / Row::has_column disagree with the first result column of that name".to_string()))
            } else {
                None
            }
        }
    };
    Outcome { viol, class }
}

pub fn main(args: &Args) -> i32 {
    cases::run(args, "CASE", "QUERIES", setup, run_case)
}
