//! C06: table definitions enumerated by TLC (MC_Schema.tla).  The library must accept exactly the
//! representable ones and report the same columns immediately and after save + reopen.
use crate::cases::{self, Outcome};
use crate::j::{self, cps, from_cps};
use crate::session::Session;
use crate::walk::diff;
use crate::Args;
use serde_json::{json, Value as J};
use std::panic::{catch_unwind, AssertUnwindSafe};

fn table_cols(st: &J, name: &J) -> Option<J> {
    st["tables"].as_array()?.iter().find(|t| &t["name"] == name).map(|t| t["cols"].clone())
}

fn run_case(_ctx: &mut (), c: &J, _n: u64) -> Outcome {
    let want = c["want"].as_str().unwrap_or("Err").to_string();
    let ncols = c["cols"].as_array().map(|a| a.len()).unwrap_or(0);
    let class = format!("{}:{}", if ncols == 2 { "one-column" } else { "structure" }, want);
    let mut sess = Session::empty();
    sess.exec(&json!({"op":"Create","args":{"ptype":"Installer"}}));
    let before = sess.project().ok();
    let r = sess.exec(&json!({"op":"CreateTable","args":{"table": c["table"], "cols": c["cols"]}}));
    if r == "panic" {
        return Outcome { viol: Some(("schema-panic", "create_table panicked".into())), class };
    }
    if r != want {
        return Outcome { viol: Some(("schema-res", format!("create_table returned {} where the specification says {}", r, want))), class };
    }
    let after = match sess.project() {
        Ok(a) => a,
        Err(e) => return Outcome { viol: Some(("schema-read", e)), class },
    };
    if want == "Err" {
        if Some(&after) != before.as_ref() {
            return Outcome { viol: Some(("schema-atomic", format!("refused create_table changed the package: {}", diff(&after, before.as_ref().unwrap())))), class };
        }
        return Outcome { viol: None, class };
    }
    // reported immediately
    let got = table_cols(&after, &c["table"]);
    if got.as_ref() != Some(&c["cols"]) {
        return Outcome { viol: Some(("schema-now", format!("columns reported right after create_table differ: {}", diff(got.as_ref().unwrap_or(&J::Null), &c["cols"])))), class };
    }
    // and after each way of saving + reopening
    for close in ["Flush", "IntoInner", "DropPkg"] {
        let mut s2 = Session::empty();
        s2.exec(&json!({"op":"Create","args":{"ptype":"Installer"}}));
        s2.exec(&json!({"op":"CreateTable","args":{"table": c["table"], "cols": c["cols"]}}));
        if s2.exec(&json!({"op": close, "args": {}})) != "Ok" {
            return Outcome { viol: Some(("schema-reopen", format!("{} failed after create_table", close))), class };
        }
        let bytes = s2.med.snap();
        let mut s3 = Session::empty();
        s3.med = crate::media::Medium::new(bytes);
        let opened = catch_unwind(AssertUnwindSafe(|| msi::Package::open(s3.med.handle())));
        match opened {
            Ok(Ok(p)) => {
                s3.pkg = Some(p);
                match s3.project() {
                    Ok(st) => {
                        let got = table_cols(&st, &c["table"]);
                        if got.as_ref() != Some(&c["cols"]) {
                            return Outcome { viol: Some(("schema-reopen", format!("columns after {} + reopen differ: {}", close, diff(got.as_ref().unwrap_or(&J::Null), &c["cols"])))), class };
                        }
                        if st != after {
                            return Outcome { viol: Some(("schema-reopen", format!("package after {} + reopen differs: {}", close, diff(&st, &after)))), class };
                        }
                    }
                    Err(e) => return Outcome { viol: Some(("schema-reopen", e)), class },
                }
            }
            Ok(Err(e)) => return Outcome { viol: Some(("schema-reopen", format!("saved package does not reopen: {}", e))), class },
            Err(_) => return Outcome { viol: Some(("schema-panic", "reopening panicked".into())), class },
        }
    }
    let _ = (cps(""), from_cps(&json!([])), j::is_true_lit(&json!(0)));
    Outcome { viol: None, class }
}

pub fn main(args: &Args) -> i32 {
    cases::run(args, "CASE", "SCHEMAS", || (), run_case)
}
