//! C14: identity facts logged for TLC; exhaustive per-character / per-byte-sequence sweep and
//! boundary strings for the chunked encode loop against the table oracle (encoding_rs used
//! directly under the reference wiring); every disagreement becomes a trace line.
use crate::codec::{ref_decode, ref_encode};
use crate::j::cps;
use crate::Args;
use msi::CodePage;
use serde_json::json;
use std::io::Write;
use std::panic::{catch_unwind, AssertUnwindSafe};
use std::sync::{Arc, Mutex};

const IDS: [i32; 26] = [932, 936, 949, 950, 951, 1250, 1251, 1252, 1253, 1254, 1255, 1256, 1257, 1258, 10000, 10007, 20127, 28591, 28592, 28593, 28594, 28595, 28596, 28597, 28598, 65001];

fn unspecified_28591(ch: char, refb: &[u8]) -> bool {
    // ISO 8859-1 and the WHATWG reading of its label differ exactly in the C1 range
    (0x80..=0x9f).contains(&(ch as u32)) || (refb.len() == 1 && (0x80..=0x9f).contains(&refb[0]))
}

pub fn main(args: &Args) -> i32 {
    let full = args.get("full").is_some();
    let out = Arc::new(Mutex::new(std::io::BufWriter::new(std::fs::File::create(args.get("trace").expect("--trace")).expect("trace"))));
    let counts = Arc::new(Mutex::new((0u64, 0u64, 0u64, 0u64))); // enc calls, dec calls, loop strings, disagreements
    let emit = {
        let out = out.clone();
        let counts = counts.clone();
        move |j: serde_json::Value| {
            let mut c = counts.lock().unwrap();
            if j["k"] != "id" && j["k"] != "page" {
                c.3 += 1;
                if c.3 > 2000 {
                    return;
                }
            }
            let _ = writeln!(out.lock().unwrap(), "{}", j);
        }
    };
    // 1. identity
    let mut is: Vec<i32> = (-1..=70000).collect();
    is.extend_from_slice(&[i32::MIN, i32::MAX, -932, -65001, 65536 + 932, 65536 + 1252, 0x10000, 1 << 20]);
    for i in is {
        let got = match catch_unwind(|| CodePage::from_id(i)) {
            Ok(Some(p)) => p.id(),
            Ok(None) => -1,
            Err(_) => -2,
        };
        emit(json!({"k":"id","i":i,"got":got}));
    }
    let mut handles = Vec::new();
    for id in IDS {
        let emit = emit.clone();
        let counts = counts.clone();
        handles.push(std::thread::spawn(move || {
            let p = match CodePage::from_id(id) {
                Some(p) => p,
                None => return,
            };
            emit(json!({"k":"page","id":id,"name":cps(p.name()),"back":p.id()}));
            let idl = id as i64;
            let (mut ne, mut nd, mut nl) = (0u64, 0u64, 0u64);
            // 2. per-character laws
            let mut reps: [Option<char>; 5] = [None; 5]; // representative of each encoded width; [0] = unmappable
            let limit: u32 = if full { 0x110000 } else { 0x10000 };
            let mut scalars: Vec<u32> = (0..limit).collect();
            if !full {
                scalars.extend((0x10000..0x110000).step_by(257));
                scalars.extend([0x1F600, 0x10FFFF, 0x10FFFD, 0x100000, 0xFFFFF, 0x20000, 0x2A6D6]);
            }
            let mut buf = [0u8; 4];
            let mut mappables: Vec<(char, [u8; 4], u8)> = Vec::new();
            let mut last_unmappable: Option<char> = None;
            for u in scalars {
                let ch = match char::from_u32(u) {
                    Some(c) => c,
                    None => continue,
                };
                let st: &str = ch.encode_utf8(&mut buf);
                let refb = ref_encode(idl, st).unwrap();
                if id == 28591 && unspecified_28591(ch, &refb) {
                    continue;
                }
                ne += 1;
                let lib = match catch_unwind(AssertUnwindSafe(|| p.encode(st))) {
                    Ok(b) => b,
                    Err(_) => {
                        emit(json!({"k":"panic","page":id,"what":"encode","ch":u}));
                        continue;
                    }
                };
                if lib != refb {
                    emit(json!({"k":"enc","page":id,"ch":u,"lib":lib,"ref":refb}));
                    continue;
                }
                let mappable = refb != b"?" || ch == '?';
                if mappable {
                    let w = refb.len().min(4);
                    let mut b4 = [0u8; 4];
                    b4[..w].copy_from_slice(&refb[..w]);
                    mappables.push((ch, b4, w as u8));
                    if reps[w].is_none() && u > 0x20 {
                        reps[w] = Some(ch);
                    }
                    match catch_unwind(AssertUnwindSafe(|| p.decode(&lib))) {
                        Ok(back) => {
                            if back != st {
                                emit(json!({"k":"dec","page":id,"what":"round trip","ch":u,"bytes":lib,"lib":cps(&back)}));
                            }
                        }
                        Err(_) => emit(json!({"k":"panic","page":id,"what":"decode","ch":u})),
                    }
                } else {
                    if reps[0].is_none() {
                        reps[0] = Some(ch);
                    }
                    if u < 0xE000 {
                        last_unmappable = Some(ch);
                    }
                }
            }
            // 2b. the concatenation law in context: EVERY representable character directly after and directly
            //     before an unrepresentable one (the first and the last the sweep met) and next to a
            //     representable one of another width: encode(x y) = encode(x) encode(y)
            let mut ctx: Vec<(char, Vec<u8>)> = Vec::new();
            for u in [reps[0], last_unmappable].iter().flatten() {
                ctx.push((*u, b"?".to_vec()));
            }
            if let Some(m) = reps[2].or(reps[1]) {
                ctx.push((m, ref_encode(idl, &m.to_string()).unwrap()));
            }
            for (ch, b4, w) in mappables.iter() {
                let mb = &b4[..*w as usize];
                for (x, xb) in ctx.iter() {
                    for order in 0..2 {
                        let (s, want): (String, Vec<u8>) = if order == 0 { ([*x, *ch].iter().collect(), [&xb[..], mb].concat()) } else { ([*ch, *x, *ch].iter().collect(), [mb, &xb[..], mb].concat()) };
                        ne += 1;
                        match catch_unwind(AssertUnwindSafe(|| p.encode(&s))) {
                            Ok(got) => {
                                if got != want {
                                    emit(json!({"k":"enc","page":id,"ch":*ch as u32,"after":*x as u32,"order":order,"lib":got,"ref":want}));
                                }
                            }
                            Err(_) => emit(json!({"k":"panic","page":id,"what":"encode pair","ch":*ch as u32})),
                        }
                    }
                }
            }
            drop(mappables);
            // 3. decoding accepts any bytes: all 1- and 2-byte sequences (+ BOM-like prefixes)
            let mut seqs: Vec<Vec<u8>> = (0..=255u8).map(|b| vec![b]).collect();
            for a in 0..=255u8 {
                for b in 0..=255u8 {
                    seqs.push(vec![a, b]);
                }
            }
            seqs.push(vec![0xEF, 0xBB, 0xBF, 0x41]);
            seqs.push(vec![0xFF, 0xFE, 0x41, 0x00]);
            seqs.push(vec![0xFE, 0xFF, 0x00, 0x41]);
            seqs.push(vec![]);
            for s in seqs {
                if id == 28591 && s.iter().any(|b| (0x80..=0x9f).contains(b)) {
                    continue;
                }
                nd += 1;
                let want = ref_decode(idl, &s).unwrap();
                match catch_unwind(AssertUnwindSafe(|| p.decode(&s))) {
                    Ok(got) => {
                        if got != want {
                            emit(json!({"k":"dec","page":id,"what":"bytes","bytes":s,"lib":cps(&got),"ref":cps(&want)}));
                        }
                    }
                    Err(_) => emit(json!({"k":"panic","page":id,"what":"decode bytes","bytes":s})),
                }
            }
            // 4. the chunked loop: every shape over the character classes (0 = unmappable, 1..4 = encoded
            //    width; the initial states of CodePage.tla up to length 3) placed at every offset around
            //    the 1024-byte buffer boundary, twice
            let classes: Vec<usize> = (0..5).filter(|&w| reps[w].is_some()).collect();
            let mut shapes: Vec<Vec<usize>> = vec![vec![]];
            for _ in 0..3 {
                let mut next = Vec::new();
                for s in &shapes {
                    for &c in &classes {
                        let mut t = s.clone();
                        t.push(c);
                        next.push(t);
                    }
                }
                shapes.extend(next);
            }
            shapes.sort();
            shapes.dedup();
            for shape in shapes.iter().filter(|s| !s.is_empty()) {
                let piece: String = shape.iter().map(|&w| reps[w].unwrap()).collect();
                let piece_len = ref_encode(idl, &piece).unwrap().len();
                for t in 0..=(piece_len + 2) {
                    let mut s = String::new();
                    for _ in 0..(1024 + 1 - t.min(1024)) {
                        s.push('a');
                    }
                    s.push_str(&piece);
                    let sofar = ref_encode(idl, &s).unwrap().len();
                    for _ in 0..(2048 + 1 - t.min(1024) - (sofar % 2048).min(2048 - 1)) {
                        s.push('b');
                    }
                    s.push_str(&piece);
                    nl += 1;
                    let want: Vec<u8> = s.chars().flat_map(|c| ref_encode(idl, &c.to_string()).unwrap()).collect();
                    match catch_unwind(AssertUnwindSafe(|| p.encode(&s))) {
                        Ok(got) => {
                            if got != want {
                                emit(json!({"k":"loop","page":id,"shape":shape,"t":t,"liblen":got.len(),"reflen":want.len()}));
                            }
                        }
                        Err(_) => emit(json!({"k":"panic","page":id,"what":"encode long","shape":shape})),
                    }
                }
            }
            let mut c = counts.lock().unwrap();
            c.0 += ne;
            c.1 += nd;
            c.2 += nl;
        }));
    }
    for h in handles {
        let _ = h.join();
    }
    let c = counts.lock().unwrap();
    println!("CODEPAGES {}", json!({"pages": 26, "encode_calls": c.0, "decode_calls": c.1, "loop_strings": c.2, "disagreements": c.3, "exhaustive": full}));
    0
}
