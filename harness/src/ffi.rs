//! C09: the two FFI entry points of the msi_ffi crate (`get_information`, `get_table`) called on
//! the corrupted files, in a worker process of their own: a panic inside an `extern "C"` function
//! aborts the process, which the parent observes as an abnormal exit.
use crate::Args;
use msi_ffi as _; // link the rlib so that its #[no_mangle] exports exist
use std::ffi::CString;
use std::os::raw::c_char;

#[repr(C)]
struct CVec {
    ptr: *mut u8,
    len: usize,
    cap: usize,
}
#[repr(C)]
struct Info {
    arch: CVec,
    author: CVec,
    comments: CVec,
    creating_application: CVec,
    creation_time: CVec,
    languages: CVec,
    subject: CVec,
    title: CVec,
    uuid: CVec,
    word_count: i32,
    has_digital_signature: bool,
    table_names: CVec,
}
extern "C" {
    fn get_information(path: *const c_char) -> Info;
    fn get_table(path: *const c_char, table_name: *const c_char) -> CVec;
}

pub fn main(args: &Args) -> i32 {
    let dir = args.get("dir").expect("--dir").to_string();
    let skip = args.num("skip", 0);
    let progress = args.get("progress").map(|s| s.to_string());
    let mut files: Vec<String> = std::fs::read_dir(&dir).map(|d| d.filter_map(|e| e.ok()).map(|e| e.path().to_string_lossy().to_string()).collect()).unwrap_or_default();
    files.sort();
    let mut n = 0u64;
    let mut tables = 0u64;
    for (i, f) in files.iter().enumerate() {
        let idx = i as u64 + 1;
        if idx <= skip {
            continue;
        }
        if let Some(p) = &progress {
            let _ = std::fs::write(p, format!("{} {}", idx, f));
        }
        let cpath = CString::new(f.as_str()).unwrap();
        unsafe {
            let info = get_information(cpath.as_ptr());
            let _ = (info.word_count, info.has_digital_signature, info.table_names.len);
            for t in ["_Tables", "_Columns", "_Validation", "T", "U", "Missing"] {
                let ct = CString::new(t).unwrap();
                let v = get_table(cpath.as_ptr(), ct.as_ptr());
                tables += v.len as u64;
            }
        }
        n += 1;
    }
    if let Some(p) = &progress {
        let _ = std::fs::write(p, format!("{} done", files.len() + 1));
    }
    println!("FFI {}", serde_json::json!({"files": n, "rows_returned": tables}));
    0
}
