//! impl -> spec at scale: seeded random histories with rich values (boundary integers, empty /
//! shared / non-ASCII / very long strings, all 26 code pages, three package types, every way of
//! closing, crash after flush, invalid calls), every call logged with the fully observed state
//! for Trace_Msi.tla.  The generator knows schemas only to produce plausible arguments; it
//! computes no expected result: TLC is the oracle.
use crate::codec::ref_encode;
use crate::j::cps;
use crate::rnd::Rng;
use crate::session::Session;
use crate::walk::log_state;
use crate::Args;
use serde_json::{json, Value as J};
use std::io::Write;

const PAGES: [i64; 26] = [932, 936, 949, 950, 951, 1250, 1251, 1252, 1253, 1254, 1255, 1256, 1257, 1258, 10000, 10007, 20127, 28591, 28592, 28593, 28594, 28595, 28596, 28597, 28598, 65001];
const INTS16: [i64; 9] = [0, 1, -1, 2, 7, 32767, -32767, 100, -100];
const INTS32: [i64; 11] = [0, 1, -1, 2, 32767, 32768, -32768, 65536, 2147483647, -2147483647, 123456];
const CANDS: &str = "abXYZ09 _.\u{e9}\u{df}\u{f1}\u{416}\u{3b1}\u{5d0}\u{627}\u{3042}\u{4e2d}\u{d55c}\u{20ac}\u{142}\u{11f}";

#[derive(Clone)]
struct ColG {
    name: String,
    ty: &'static str,
    width: u64,
    nullable: bool,
    key: bool,
    cat: Option<&'static str>,
    loc: bool,
}
#[derive(Clone)]
struct TabG {
    name: String,
    cols: Vec<ColG>,
}

fn col_json(c: &ColG) -> J {
    json!({"name": cps(&c.name), "type": c.ty, "width": c.width, "nullable": c.nullable, "key": c.key, "loc": c.loc,
           "range": [], "fk": [], "cat": match c.cat { Some(x) => cps(x), None => json!([]) }, "enum": []})
}

struct Gen {
    rng: Rng,
    tabs: Vec<TabG>,
    cp: i64,
    strings: Vec<String>, // strings used so far (to share them between cells and tables)
    chars: std::collections::BTreeSet<char>, // every character handed out so far (a code page switch must be able to keep them)
    next_tab: u32,
    streams: Vec<String>,
}

impl Gen {
    fn repertoire(&self) -> Vec<char> {
        CANDS.chars().filter(|c| ref_encode(self.cp, &c.to_string()).map(|b| b != b"?").unwrap_or(false)).collect()
    }
    fn string(&mut self, ident: bool, maxw: u64) -> String {
        if !ident && !self.strings.is_empty() && self.rng.chance(1, 3) {
            let s = self.rng.pick(&self.strings).clone();
            if maxw == 0 || (s.chars().count() as u64) <= maxw {
                return s;
            }
        }
        let s: String = if ident {
            let n = 1 + self.rng.below(5);
            (0..n).map(|k| if k == 0 { *self.rng.pick(&['a', 'B', '_', 'T']) } else { *self.rng.pick(&['a', 'b', '1', '_', '.', 'Z']) }).collect()
        } else {
            let rep = self.repertoire();
            let n = match self.rng.below(10) {
                0 => 0,
                1 => 1,
                _ => 1 + self.rng.below(6),
            };
            let n = if maxw > 0 { n.min(maxw) } else { n };
            (0..n).map(|_| *self.rng.pick(&rep)).collect()
        };
        if !s.is_empty() && self.strings.len() < 12 {
            self.strings.push(s.clone());
        }
        self.chars.extend(s.chars());
        s
    }
    fn value(&mut self, c: &ColG, valid: bool) -> J {
        if !valid {
            return match self.rng.below(4) {
                0 => if c.ty == "s" { json!({"i": 5}) } else { json!({"s": cps("x")}) },
                1 => if c.nullable { json!({"i": if c.ty == "s" { 1 } else { 40000 + (c.ty == "i32") as i64 * 4294967295i64.min(0) } }) } else { json!({"n": 0}) },
                2 => if c.ty == "i16" { json!({"i": 32768}) } else if c.ty == "i32" { json!({"i": -2147483648i64}) } else if c.width > 0 { json!({"s": cps(&"w".repeat(c.width as usize + 1))}) } else { json!({"i": 0}) },
                _ => if c.cat == Some("Identifier") { json!({"s": cps("9 bad")}) } else if c.ty == "s" { json!({"i": 0}) } else { json!({"s": cps("nope")}) },
            };
        }
        if c.nullable && self.rng.chance(1, 5) {
            return json!({"n": 0});
        }
        match c.ty {
            "i16" => json!({"i": *self.rng.pick(&INTS16)}),
            "i32" => json!({"i": *self.rng.pick(&INTS32)}),
            _ => {
                let s = self.string(c.cat == Some("Identifier"), c.width);
                json!({"s": cps(&s)})
            }
        }
    }
    fn new_table(&mut self) -> (J, TabG) {
        self.next_tab += 1;
        let name = format!("T{}", self.next_tab);
        let n = match self.rng.below(8) {
            0 => 1,
            7 => 6 + self.rng.below(4) as usize,
            _ => 2 + self.rng.below(3) as usize,
        };
        let mut cols = Vec::new();
        let keyed = self.rng.below(n as u64) as usize;
        let second_key = if self.rng.chance(1, 3) { Some(self.rng.below(n as u64) as usize) } else { None };
        for k in 0..n {
            let ty = *self.rng.pick(&["i16", "i32", "s", "s"]);
            let key = k == keyed || Some(k) == second_key;
            let (width, cat) = if ty == "s" {
                (*self.rng.pick(&[0u64, 0, 4, 8, 255]), *self.rng.pick(&[None, None, Some("Text"), Some("Identifier")]))
            } else {
                (0, None)
            };
            cols.push(ColG { name: format!("C{}", k + 1), ty, width, nullable: if key { self.rng.chance(1, 4) } else { self.rng.chance(2, 3) }, key, cat, loc: ty == "s" && self.rng.chance(1, 4) });
        }
        let t = TabG { name: name.clone(), cols: cols.clone() };
        (json!({"op": "CreateTable", "args": {"table": cps(&name), "cols": cols.iter().map(col_json).collect::<Vec<_>>()}}), t)
    }
    fn cond(&mut self, t: &TabG, depth: u32) -> J {
        // operators that cannot overflow; literals of the right kind for the column
        if depth == 0 || self.rng.chance(1, 3) {
            let c = self.rng.pick(&t.cols).clone();
            let v = self.value(&c, true);
            let op = *self.rng.pick(&["eq", "ne", "lt", "le", "gt", "ge"]);
            return json!({"bin": op, "l": {"col": cps(&c.name)}, "r": {"lit": v}});
        }
        match self.rng.below(4) {
            0 => json!({"un": "not", "a": self.cond(t, depth - 1)}),
            1 => json!({"bin": "and", "l": self.cond(t, depth - 1), "r": self.cond(t, depth - 1)}),
            2 => json!({"bin": "or", "l": self.cond(t, depth - 1), "r": self.cond(t, depth - 1)}),
            _ => {
                let c = self.rng.pick(&t.cols).clone();
                json!({"col": cps(&c.name)})
            }
        }
    }
    fn row(&mut self, t: &TabG, valid: bool) -> J {
        let bad = if valid { usize::MAX } else { self.rng.below(t.cols.len() as u64) as usize };
        let cols = t.cols.clone();
        J::Array(cols.iter().enumerate().map(|(k, c)| self.value(c, k != bad)).collect())
    }
    /// can every live string (strings handed out so far) be represented in code page `cp`?
    fn fits(&self, cp: i64) -> bool {
        // every character handed out so far (not only the strings kept for re-use) must exist in the page
        self.chars.iter().all(|c| ref_encode(cp, &c.to_string()).map(|b| b != b"?").unwrap_or(false))
    }
    fn event(&mut self, open: bool, last_flush_ok: bool) -> J {
        if !open {
            return json!({"op": "Reopen", "args": {"x": 0}});
        }
        let r = self.rng.below(100);
        let tru = json!({"lit": {"i": 1}});
        if self.tabs.is_empty() || r < 8 {
            let (e, t) = self.new_table();
            self.tabs.push(t);
            return e;
        }
        let ti = self.rng.below(self.tabs.len() as u64) as usize;
        let t = self.tabs[ti].clone();
        if r < 40 {
            let n = 1 + self.rng.below(3);
            let invalid = self.rng.chance(1, 6);
            let rows: Vec<J> = (0..n).map(|k| self.row(&t, !(invalid && k == n - 1))).collect();
            let rows = if self.rng.chance(1, 12) { vec![json!([{"i": 1}])] } else { rows };
            json!({"op": "Insert", "args": {"table": cps(&t.name), "rows": rows}})
        } else if r < 55 {
            let k = 1 + self.rng.below(2) as usize;
            let mut sets = Vec::new();
            let mut used = Vec::new();
            for _ in 0..k {
                let c = self.rng.pick(&t.cols).clone();
                if used.contains(&c.name) {
                    continue;
                }
                used.push(c.name.clone());
                let ok = !self.rng.chance(1, 8);
                let v = self.value(&c, ok);
                sets.push(json!([cps(&c.name), v]));
            }
            let cond = if self.rng.chance(1, 3) { tru } else { self.cond(&t, 2) };
            json!({"op": "Update", "args": {"table": cps(if self.rng.chance(1, 20) { "Nope" } else { &t.name }), "sets": sets, "cond": cond}})
        } else if r < 65 {
            let cond = if self.rng.chance(1, 4) { tru } else { self.cond(&t, 2) };
            json!({"op": "Delete", "args": {"table": cps(&t.name), "cond": cond}})
        } else if r < 69 {
            if self.rng.chance(1, 2) {
                self.tabs.remove(ti);
            }
            json!({"op": "DropTable", "args": {"table": cps(&t.name)}})
        } else if r < 74 {
            let cands: Vec<i64> = PAGES.iter().cloned().filter(|p| self.fits(*p)).collect();
            let cp = *self.rng.pick(&cands);
            self.cp = cp;
            json!({"op": "SetCodepage", "args": {"cp": cp}})
        } else if r < 80 {
            let f = *self.rng.pick(&["author", "comments", "subject", "title", "word_count"]);
            let v = if self.rng.chance(1, 4) { json!({"absent": 0}) } else if f == "word_count" { json!({"i": self.rng.below(5)}) } else { json!({"s": cps(&match self.rng.below(12) { 9 => "caf\u{e9}".to_string(), 10 => "\u{3042}\u{4e2d}x".to_string(), 11 => "\u{20ac}5 \u{1f600}".to_string(), k => format!("v{}", k) })}) };
            json!({"op": "SetSummary", "args": {"field": f, "value": v}})
        } else if r < 86 {
            let n = format!("s{}", self.rng.below(3));
            if self.rng.chance(1, 3) {
                self.streams.retain(|x| x != &n);
                json!({"op": "RemoveStream", "args": {"name": cps(&n)}})
            } else {
                if !self.streams.contains(&n) { self.streams.push(n.clone()); }
                let d = *self.rng.pick(&["b", "b0102", "g100_3", "g5000_4"]);
                json!({"op": "WriteStream", "args": {"name": cps(&n), "data": d}})
            }
        } else if r < 91 {
            json!({"op": "Flush", "args": {"x": 0}})
        } else if r < 94 && last_flush_ok {
            json!({"op": "Crash", "args": {"x": 0}})
        } else if r < 97 {
            json!({"op": "IntoInner", "args": {"x": 0}})
        } else {
            json!({"op": "DropPkg", "args": {"x": 0}})
        }
    }
}

pub fn main(args: &Args) -> i32 {
    let seed = args.num("seed", 1);
    let runs = args.num("runs", 20);
    let steps = args.num("steps", 30);
    let long_every = args.num("long-every", 0);
    let mut out = std::io::BufWriter::new(std::fs::File::create(args.get("trace").expect("--trace")).expect("trace"));
    let mut nev = 0u64;
    let mut nlong = 0usize;
    let mut by_op: std::collections::BTreeMap<String, u64> = Default::default();
    for run in 0..runs {
        let mut g = Gen { rng: Rng::new(seed * 1_000_003 + run), tabs: vec![], cp: 65001, strings: vec![], chars: Default::default(), next_tab: 0, streams: vec![] };
        let mut sess = Session::empty();
        let pt = ["Installer", "Patch", "Transform"][(run % 3) as usize];
        let create = json!({"op": "Create", "args": {"ptype": pt}});
        let r = sess.exec(&create);
        let _ = writeln!(out, "{}", json!({"op": "Create", "args": {"ptype": pt}, "res": r, "st": log_state(&mut sess)}));
        let mut last_flush_ok = false;
        for step in 0..steps {
            let mut ev = g.event(sess.is_open(), last_flush_ok);
            if long_every > 0 && (run * steps + step) % long_every == long_every - 1 && sess.is_open() {
                // a string longer than 64 KiB in an unlimited-width text column of a fresh table
                let name = format!("L{}", step);
                let _ = sess.exec(&json!({"op": "CreateTable", "args": {"table": cps(&name), "cols": [col_json(&ColG { name: "K".into(), ty: "i16", width: 0, nullable: false, key: true, cat: None, loc: false }), col_json(&ColG { name: "V".into(), ty: "s", width: 0, nullable: true, key: false, cat: None, loc: false })]}}));
                let _ = writeln!(out, "{}", json!({"op": "Reset", "args": {"x": 0}, "res": "Ok", "st": log_state(&mut sess)}));
                // encoded lengths around the 16-bit length field of the pool (65535 is the last short form,
                // 65536 the first long form), then well beyond it with a two-byte character
                let lens = [65535usize, 65536, 65534, 0, 65537];
                let want = lens[nlong % lens.len()];
                nlong += 1;
                let long: String = if want > 0 {
                    "xy".repeat(want / 2 + 1)[..want].to_string()
                } else if ref_encode(g.cp, "\u{e9}").map(|b| b != b"?").unwrap_or(false) {
                    "\u{e9}x".repeat(35000)
                } else {
                    "xy".repeat(35000)
                };
                ev = json!({"op": "Insert", "args": {"table": cps(&name), "rows": [[{"i": 1}, {"s": cps(&long)}]]}});
            }
            let res = sess.exec(&ev);
            last_flush_ok = ev["op"] == "Flush" && res == "Ok";
            *by_op.entry(format!("{}:{}", ev["op"].as_str().unwrap_or("?"), res)).or_insert(0) += 1;
            let mut m = serde_json::Map::new();
            m.insert("op".into(), ev["op"].clone());
            m.insert("args".into(), ev["args"].clone());
            m.insert("res".into(), json!(res));
            m.insert("st".into(), log_state(&mut sess));
            let _ = writeln!(out, "{}", J::Object(m));
            nev += 1;
            if ev["op"] == "DropTable" && res != "Ok" {
                // keep the generator's view in step with the package
            }
            if long_every > 0 && ev["args"]["rows"][0][1]["s"].as_array().map(|a| a.len()).unwrap_or(0) > 60000 {
                // drop the long string again soon so that it does not bloat every later event
                let name = crate::j::from_cps(&ev["args"]["table"]);
                // (saved while the long string is live, released, saved again: the pool stream gets shorter)
                for e2 in [json!({"op": "Flush", "args": {"x": 0}}), json!({"op": "DropTable", "args": {"table": cps(&name)}}), json!({"op": "Flush", "args": {"x": 0}})] {
                    let res = sess.exec(&e2);
                    let _ = writeln!(out, "{}", json!({"op": e2["op"], "args": e2["args"], "res": res, "st": log_state(&mut sess)}));
                    nev += 1;
                }
            }
        }
    }
    println!("RANDOM {}", json!({"runs": runs, "events": nev, "by_op": by_op}));
    0
}
