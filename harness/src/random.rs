use crate::Args;
pub fn main(_args: &Args) -> i32 { 0 }
