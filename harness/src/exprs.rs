//! C13: expression cases enumerated and evaluated by TLC (MC_Expr.tla), replayed on the library:
//! construction through the public combinators, Expr::eval on a real Row, and the same expression
//! as the condition of select / update / delete.
use crate::j::{self, val};
use crate::session::Session;
use crate::walk::parse_tagged;
use crate::Args;
use msi::{Column, Delete, Expr, Insert, Row, Select, Update, Value};
use serde_json::{json, Value as J};
use std::collections::{HashMap, VecDeque};
use std::io::{BufRead, Write};
use std::panic::{catch_unwind, AssertUnwindSafe};
use std::sync::{Arc, Mutex};

const NAMES: [&str; 6] = ["X1", "X2", "X3", "Y1", "Y2", "Y3"];

struct Ctx {
    sess: Session,
    rows: HashMap<String, Row>,
    rows2: HashMap<String, Row>, // the same values in another column layout (a projection in reverse order)
    current: String,
}

fn setup() -> Ctx {
    let mut sess = Session::empty();
    sess.exec(&json!({"op":"Create","args":{"ptype":"Installer"}}));
    let p = sess.pkg.as_mut().unwrap();
    let mut cols = vec![Column::build("K").primary_key().int16()];
    for n in &NAMES[..3] {
        cols.push(Column::build(*n).nullable().int32());
    }
    for n in &NAMES[3..] {
        cols.push(Column::build(*n).nullable().string(0));
    }
    cols.push(Column::build("M").nullable().int32());
    p.create_table("E", cols).expect("create table E");
    Ctx { sess, rows: HashMap::new(), rows2: HashMap::new(), current: String::new() }
}

fn put_row(ctx: &mut Ctx, key: &str, vals: &[Value]) -> Result<(), String> {
    let p = ctx.sess.pkg.as_mut().unwrap();
    p.delete_rows(Delete::from("E")).map_err(|e| e.to_string())?;
    let mut v = vec![Value::Int(1)];
    v.extend_from_slice(vals);
    v.push(Value::Int(0));
    p.insert_rows(Insert::into("E").row(v)).map_err(|e| e.to_string())?;
    ctx.current = key.to_string();
    Ok(())
}

fn truth(v: &Value) -> bool {
    match v {
        Value::Null => false,
        Value::Int(i) => *i != 0,
        Value::Str(s) => !s.is_empty(),
    }
}

/// Returns (kind, message) of the first disagreement.
fn run_case(ctx: &mut Ctx, c: &J, dml: bool) -> Option<(&'static str, String)> {
    let vals: Vec<Value> = c["row"].as_array().unwrap().iter().map(j::to_val).collect();
    let key = c["row"].to_string();
    let want: Vec<Value> = c["want"].as_array().unwrap().iter().map(j::to_val).collect();
    let want_truth: Vec<bool> = want.iter().map(truth).collect();
    if !ctx.rows.contains_key(&key) {
        if let Err(e) = put_row(ctx, &key, &vals) {
            return Some(("harness", format!("cannot store the row: {}", e)));
        }
        let p = ctx.sess.pkg.as_mut().unwrap();
        let row = match p.select_rows(Select::table("E")) {
            Ok(mut r) => r.next(),
            Err(e) => return Some(("harness", format!("select failed: {}", e))),
        };
        match row {
            Some(r) => {
                ctx.rows.insert(key.clone(), r);
            }
            None => return Some(("harness", "row not found".into())),
        }
        let row2 = match p.select_rows(Select::table("E").columns(&["M", "Y3", "Y2", "Y1", "X3", "X2", "X1"])) {
            Ok(mut r) => r.next(),
            Err(e) => return Some(("harness", format!("projection failed: {}", e))),
        };
        if let Some(r) = row2 {
            ctx.rows2.insert(key.clone(), r);
        }
    }
    // 1. construction (literal operands are folded while the expression is built)
    let built = catch_unwind(AssertUnwindSafe(|| j::to_expr(&c["e"])));
    let expr: Expr = match built {
        Ok(e) => e,
        Err(_) => return Some(("expr-panic", "panic while the expression was being built".into())),
    };
    // 2. Expr::eval on a row obtained from select_rows
    let row = ctx.rows.get(&key).unwrap().clone();
    let got = match catch_unwind(AssertUnwindSafe(|| expr.eval(&row))) {
        Ok(v) => v,
        Err(_) => return Some(("expr-panic", "Expr::eval panicked".into())),
    };
    if !want.contains(&got) {
        return Some(("expr-value", format!("Expr::eval gave {} but the specification admits {}", val(&got), c["want"])));
    }
    // 2b. the value depends on the row's names and values only: the SAME expression object evaluated on a row
    //     with another column layout (and then on the first row again) gives an admitted result each time
    if let Some(row2) = ctx.rows2.get(&key).cloned() {
        for (which, r) in [("a row with the columns in another order", &row2), ("the first row again", &row)] {
            match catch_unwind(AssertUnwindSafe(|| expr.eval(r))) {
                Ok(v) => {
                    if !want.contains(&v) {
                        return Some(("expr-value", format!("the same expression object evaluated on {} gave {} but the specification admits {}", which, val(&v), c["want"])));
                    }
                }
                Err(_) => return Some(("expr-panic", format!("Expr::eval on {} panicked", which))),
            }
        }
    }
    if !dml {
        return None;
    }
    // 3. the same expression as a condition
    if ctx.current != key {
        if let Err(e) = put_row(ctx, &key, &vals) {
            return Some(("harness", format!("cannot store the row: {}", e)));
        }
    }
    let p = ctx.sess.pkg.as_mut().unwrap();
    let r = catch_unwind(AssertUnwindSafe(|| p.select_rows(Select::table("E").with(j::to_expr(&c["e"]))).map(|r| r.count())));
    match r {
        Ok(Ok(n)) => {
            if !want_truth.contains(&(n == 1)) {
                return Some(("expr-cond", format!("select with the condition yielded {} rows; admitted results {}", n, c["want"])));
            }
        }
        Ok(Err(e)) => return Some(("expr-cond", format!("select with the condition failed: {}", e))),
        Err(_) => return Some(("expr-panic", "select with the condition panicked".into())),
    }
    let r = catch_unwind(AssertUnwindSafe(|| p.update_rows(Update::table("E").set("M", Value::Int(7)).with(j::to_expr(&c["e"])))));
    match r {
        Ok(Ok(())) => {
            let m = p.select_rows(Select::table("E")).ok().and_then(|mut r| r.next()).map(|r| r["M"].clone());
            let hit = m == Some(Value::Int(7));
            if !want_truth.contains(&hit) {
                return Some(("expr-cond", format!("update with the condition {} the row; admitted results {}", if hit { "changed" } else { "did not change" }, c["want"])));
            }
            if hit {
                let _ = p.update_rows(Update::table("E").set("M", Value::Int(0)));
            }
        }
        Ok(Err(e)) => return Some(("expr-cond", format!("update with the condition failed: {}", e))),
        Err(_) => {
            ctx.current.clear();
            return Some(("expr-panic", "update with the condition panicked".into()));
        }
    }
    let r = catch_unwind(AssertUnwindSafe(|| p.delete_rows(Delete::from("E").with(j::to_expr(&c["e"])))));
    match r {
        Ok(Ok(())) => {
            let n = p.select_rows(Select::table("E")).map(|r| r.count()).unwrap_or(99);
            let hit = n == 0;
            if !want_truth.contains(&hit) {
                return Some(("expr-cond", format!("delete with the condition left {} rows; admitted results {}", n, c["want"])));
            }
            if hit {
                ctx.current.clear();
            }
        }
        Ok(Err(e)) => return Some(("expr-cond", format!("delete with the condition failed: {}", e))),
        Err(_) => {
            ctx.current.clear();
            return Some(("expr-panic", "delete with the condition panicked".into()));
        }
    }
    None
}

pub fn main(args: &Args) -> i32 {
    let threads = args.num("threads", 8) as usize;
    let dml_every = args.num("dml-every", 1);
    let input: Box<dyn BufRead> = match args.get("cases") {
        Some(p) => Box::new(std::io::BufReader::new(std::fs::File::open(p).expect("cases file"))),
        None => Box::new(std::io::BufReader::new(std::io::stdin())),
    };
    let queue: Arc<Mutex<VecDeque<(u64, String)>>> = Arc::new(Mutex::new(VecDeque::new()));
    let done = Arc::new(Mutex::new(false));
    let viols: Arc<Mutex<Vec<J>>> = Arc::new(Mutex::new(Vec::new()));
    let stats: Arc<Mutex<(u64, u64, u64, Vec<J>)>> = Arc::new(Mutex::new((0, 0, 0, Vec::new())));
    let mut hs = Vec::new();
    for _ in 0..threads {
        let (queue, done, viols, stats) = (queue.clone(), done.clone(), viols.clone(), stats.clone());
        hs.push(std::thread::spawn(move || {
            let mut ctx = setup();
            loop {
                let item = queue.lock().unwrap().pop_front();
                match item {
                    Some((n, line)) => {
                        let c = match parse_tagged(&line, "CASE") {
                            Some(c) => c,
                            None => continue,
                        };
                        let dml = dml_every > 0 && n % dml_every == 0;
                        let v = run_case(&mut ctx, &c, dml);
                        let mut st = stats.lock().unwrap();
                        st.0 += 1;
                        if dml {
                            st.1 += 1;
                        }
                        if c["want"].as_array().map(|a| a.len()).unwrap_or(0) > 1 {
                            st.2 += 1;
                        }
                        if st.3.len() < 3 {
                            st.3.push(c.clone());
                        }
                        drop(st);
                        if let Some((kind, what)) = v {
                            let mut vs = viols.lock().unwrap();
                            if vs.len() < 500 {
                                vs.push(json!({"kind": kind, "op": c["e"].get("bin").or(c["e"].get("un")).cloned().unwrap_or(json!("?")), "what": what, "case": c}));
                            }
                        }
                    }
                    None => {
                        if *done.lock().unwrap() {
                            break;
                        }
                        std::thread::sleep(std::time::Duration::from_millis(2));
                    }
                }
            }
        }));
    }
    let mut n = 0u64;
    let mut other = Vec::new();
    for line in input.lines() {
        let line = match line {
            Ok(l) => l,
            Err(_) => break,
        };
        if line.starts_with("<<\"CASE\", ") {
            loop {
                if queue.lock().unwrap().len() < 20000 {
                    break;
                }
                std::thread::sleep(std::time::Duration::from_millis(5));
            }
            queue.lock().unwrap().push_back((n, line));
            n += 1;
        } else {
            other.push(line);
        }
    }
    *done.lock().unwrap() = true;
    for h in hs {
        let _ = h.join();
    }
    if let Some(p) = args.get("tlc-log") {
        let mut f = std::fs::File::create(p).expect("tlc log");
        for l in &other {
            let _ = writeln!(f, "{}", l);
        }
    }
    let vs = viols.lock().unwrap();
    let st = stats.lock().unwrap();
    println!("EXPRS {}", json!({"cases": st.0, "with_dml": st.1, "nondeterministic": st.2, "samples": st.3, "violations": vs.len()}));
    if let Some(p) = args.get("viol") {
        let mut f = std::fs::File::create(p).expect("viol file");
        for v in vs.iter() {
            let _ = writeln!(f, "{}", v);
        }
    }
    if vs.is_empty() { 0 } else { 1 }
}
