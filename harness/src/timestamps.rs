//! C18: creation-time round trips at real scale, logged relative to tick-aligned anchors
//! (so that the numbers fit TLC's 32-bit integers) for Trace_Timestamp.tla.
use crate::media::Medium;
use crate::rnd::Rng;
use crate::Args;
use msi::{Package, PackageType};
use serde_json::json;
use std::io::Write;
use std::panic::{catch_unwind, AssertUnwindSafe};
use std::time::{Duration, SystemTime, UNIX_EPOCH};

const EPOCH_TICKS: u64 = 116_444_736_000_000_000;

/// the instant of tick k (100 ns units since 1601-01-01), computed with std arithmetic only
fn tick_time(k: u64) -> SystemTime {
    if k >= EPOCH_TICKS {
        let d = k - EPOCH_TICKS;
        UNIX_EPOCH + Duration::new(d / 10_000_000, (d % 10_000_000) as u32 * 100)
    } else {
        let d = EPOCH_TICKS - k;
        UNIX_EPOCH - Duration::new(d / 10_000_000, (d % 10_000_000) as u32 * 100)
    }
}
fn shift(t: SystemTime, ns: i64) -> Option<SystemTime> {
    if ns >= 0 { t.checked_add(Duration::from_nanos(ns as u64)) } else { t.checked_sub(Duration::from_nanos((-ns) as u64)) }
}
fn delta_ns(t: SystemTime, anchor: SystemTime) -> i128 {
    match t.duration_since(anchor) {
        Ok(d) => d.as_nanos() as i128,
        Err(e) => -(e.duration().as_nanos() as i128),
    }
}
fn clamp(x: i128) -> i64 {
    x.max(-2147483647).min(2147483647) as i64
}

pub fn main(args: &Args) -> i32 {
    let seed = args.num("seed", 1);
    let random_anchors = args.num("anchors", 60);
    let span = args.num("span", 200) as i64;
    let mut rng = Rng::new(seed);
    let mut out = std::io::BufWriter::new(std::fs::File::create(args.get("trace").expect("--trace")).expect("trace"));
    let mut pkg = Package::create(PackageType::Installer, Medium::new(Vec::new())).expect("create");
    let mut lines = 0u64;
    let mut anchors: Vec<(u64, &str, Vec<i64>)> = Vec::new();
    let dense: Vec<i64> = (-1000..=1000).collect();
    anchors.push((0, "low", dense.clone()));
    anchors.push((EPOCH_TICKS, "epoch", dense.clone()));
    anchors.push((u64::MAX, "high", dense.clone()));
    anchors.push((EPOCH_TICKS + 10_000_000, "post", dense.clone()));
    anchors.push((EPOCH_TICKS - 10_000_000, "pre", dense.clone()));
    anchors.push((1u64 << 63, "post", dense.clone()));          // tick count with the top bit set
    anchors.push(((1u64 << 63) - 1, "post", dense.clone()));
    // tick counts around every power of two: each half of the stored 64-bit count, and each width
    // an intermediate conversion might have (32, 53, 63 bits), meets its boundary
    let narrow: Vec<i64> = (-50..=50).collect();
    for b in 20..63u32 {
        let k = 1u64 << b;
        anchors.push((k, if k >= EPOCH_TICKS { "post" } else { "pre" }, narrow.clone()));
        let k3 = k + (k >> 1) + 0x8000_0001;      // both halves non-trivial, low half with its top bit set
        anchors.push((k3, if k3 >= EPOCH_TICKS { "post" } else { "pre" }, narrow.clone()));
    }
    for _ in 0..random_anchors {
        let (k, cls) = if rng.chance(1, 3) {
            (20 + rng.below(EPOCH_TICKS - 40), "pre")
        } else {
            (EPOCH_TICKS + 20 + rng.below(u64::MAX - EPOCH_TICKS - 40), "post")
        };
        let mut ds: Vec<i64> = (-span..=span).collect();
        for _ in 0..20 {
            ds.push(rng.below(2000) as i64 - 1000);
        }
        ds.sort();
        anchors.push((k, cls, ds));
    }
    for (aid, (k, cls, ds)) in anchors.iter().enumerate() {
        let anchor = tick_time(*k);
        for (i, din) in ds.iter().enumerate() {
            // far outside the range at the two ends
            let din_eff: i128 = if *cls == "low" && *din == -1000 { -(400i128 * 365 * 86400 * 1_000_000_000) } else if *cls == "high" && *din == 1000 { 1000i128 * 365 * 86400 * 1_000_000_000 } else { *din as i128 };
            let t = if din_eff.abs() > 2_000_000_000 {
                if din_eff > 0 { anchor.checked_add(Duration::from_secs((din_eff / 1_000_000_000) as u64)) } else { anchor.checked_sub(Duration::from_secs((-din_eff / 1_000_000_000) as u64)) }
            } else {
                shift(anchor, din_eff as i64)
            };
            let t = match t {
                Some(t) => t,
                None => continue,
            };
            let r = catch_unwind(AssertUnwindSafe(|| {
                if i % 5 == 0 {
                    pkg.summary_info_mut().clear_creation_time();
                }
                pkg.summary_info_mut().set_creation_time(t);
                let got = pkg.summary_info().creation_time();
                let got2 = got.map(|g| {
                    pkg.summary_info_mut().set_creation_time(g);
                    pkg.summary_info().creation_time()
                });
                (got, got2)
            }));
            let mut rec = json!({"a": aid, "cls": cls, "din": clamp(din_eff), "panic": false, "dout": 0, "dout2": 0});
            match r {
                Ok((Some(g), Some(Some(g2)))) => {
                    rec["dout"] = json!(clamp(delta_ns(g, anchor)));
                    rec["dout2"] = json!(clamp(delta_ns(g2, anchor)));
                    if i % 16 == 0 {
                        // through save + reopen
                        let mut p2 = Package::create(PackageType::Installer, Medium::new(Vec::new())).expect("create");
                        p2.summary_info_mut().set_creation_time(t);
                        let saved = p2.into_inner().ok().and_then(|m| Package::open(Medium::new(m.snap())).ok()).and_then(|p| p.summary_info().creation_time());
                        rec["saved"] = json!(saved.map(|s| clamp(delta_ns(s, anchor))).unwrap_or(-2147483647));
                    }
                }
                Ok(_) => {
                    rec["dout"] = json!(2147483647);
                }
                Err(_) => {
                    rec["panic"] = json!(true);
                    pkg = Package::create(PackageType::Installer, Medium::new(Vec::new())).expect("create");
                }
            }
            let _ = writeln!(out, "{}", rec);
            lines += 1;
        }
    }
    println!("TIMESTAMPS {}", json!({"lines": lines, "anchors": anchors.len()}));
    0
}
