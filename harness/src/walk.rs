//! spec -> impl: replays every transition emitted by TLC (ACTION_CONSTRAINT Emit of MC_Msi.tla) on
//! the real library and compares the outcome and the projected abstract state with TLC's.
use crate::codec;
use crate::j::{canon_state, cps};
use crate::propset;
use crate::session::{pool_json, Session};
use crate::Args;
use serde_json::{json, Value as J};
use std::collections::VecDeque;
use std::io::{BufRead, Write};
use std::sync::{Arc, Mutex};

/// Parses one line printed by TLC for `PrintT(<<"EDGE", ToJson(..)>>)`.
pub fn parse_tagged(line: &str, tag: &str) -> Option<J> {
    let pre = format!("<<\"{}\", \"", tag);
    let s = line.strip_prefix(&pre)?;
    let s = s.strip_suffix("\">>")?;
    let mut out = String::with_capacity(s.len());
    let mut it = s.chars();
    while let Some(c) = it.next() {
        if c == '\\' {
            match it.next() {
                Some('"') => out.push('"'),
                Some('\\') => out.push('\\'),
                Some('n') => out.push('\n'),
                Some(o) => {
                    out.push('\\');
                    out.push(o)
                }
                None => {}
            }
        } else {
            out.push(c);
        }
    }
    serde_json::from_str(&out).ok()
}

/// Everything the trace specification wants to know about the current state.
pub fn log_state(sess: &mut Session) -> J {
    let mut m = serde_json::Map::new();
    let open = sess.is_open();
    m.insert("open".into(), json!(open));
    let mut dirty_fin = false;
    if open {
        match sess.project() {
            Ok(p) => {
                m.insert("api".into(), p);
            }
            Err(e) => {
                m.insert("apierr".into(), json!(e));
                m.insert("api".into(), json!({"tables": [], "streams": [], "sig": false, "cp": 0, "ptype": "", "summary": {}}));
            }
        }
        m.insert("lenok".into(), json!(sess.last_len_ok));
        if let Some((pool, d)) = sess.snapshot() {
            dirty_fin = d["fin"].as_bool().unwrap_or(false);
            m.insert("pool".into(), pool_json(&pool));
            m.insert("dirty".into(), d);
        }
    }
    let mode_mem = open && dirty_fin;
    match sess.image(mode_mem) {
        Ok(img) => {
            let mut ij = img.to_json();
            match &img.summary {
                Some(b) => match propset::summary_json(b) {
                    Ok((sj, errs)) => {
                        ij["sum"] = sj;
                        ij["sumerrs"] = json!(errs);
                    }
                    Err(e) => {
                        ij["sum"] = json!({"bad": 0});
                        ij["sumerrs"] = json!([e]);
                    }
                },
                None => {
                    ij["sum"] = json!({"bad": 0});
                    ij["sumerrs"] = json!(["no summary stream"]);
                }
            }
            ij["mode"] = json!(if mode_mem { "mem" } else { "disk" });
            m.insert("img".into(), ij);
        }
        Err(e) => {
            m.insert("imgerr".into(), json!(e));
            m.insert("img".into(), json!({"ptype": "", "cp": 0, "pool": [], "tables": [], "streams": [], "sig": false, "sum": {"bad": 0}, "sumerrs": [], "mode": "none"}));
        }
    }
    J::Object(m)
}

pub struct Viol {
    pub kind: &'static str,
    pub what: String,
    pub detail: J,
}

fn first_diff(a: &J, b: &J, path: String) -> Option<String> {
    if a == b {
        return None;
    }
    match (a, b) {
        (J::Object(x), J::Object(y)) => {
            for (k, v) in x {
                match y.get(k) {
                    Some(w) => {
                        if let Some(d) = first_diff(v, w, format!("{}.{}", path, k)) {
                            return Some(d);
                        }
                    }
                    None => return Some(format!("{}.{} missing on the right", path, k)),
                }
            }
            for k in y.keys() {
                if !x.contains_key(k) {
                    return Some(format!("{}.{} missing on the left", path, k));
                }
            }
            None
        }
        (J::Array(x), J::Array(y)) => {
            if x.len() != y.len() {
                return Some(format!("{}: lengths {} vs {}", path, x.len(), y.len()));
            }
            for i in 0..x.len() {
                if let Some(d) = first_diff(&x[i], &y[i], format!("{}[{}]", path, i)) {
                    return Some(d);
                }
            }
            None
        }
        _ => Some(format!("{}: {} vs {}", path, a, b)),
    }
}
pub fn diff(a: &J, b: &J) -> String {
    first_diff(a, b, String::new()).unwrap_or_else(|| "equal".into())
}

/// Rows of every table as the independent decoder resolves them from the bytes alone.
pub fn image_tables(img: &codec::Image) -> J {
    let mut v: Vec<J> = img.tables.iter().map(|t| json!({"name": cps(&t.name), "rows": img.resolved_rows(t)})).collect();
    v.sort_by(|x, y| x["name"].to_string().cmp(&y["name"].to_string()));
    J::Array(v)
}
pub fn state_tables(st: &J) -> J {
    let mut v: Vec<J> = st["tables"].as_array().cloned().unwrap_or_default().iter().map(|t| json!({"name": t["name"], "rows": t["rows"]})).collect();
    v.sort_by(|x, y| x["name"].to_string().cmp(&y["name"].to_string()));
    J::Array(v)
}

/// Checks that the bytes on the medium, read on their own, give `want`: once through a fresh
/// Package::open of a copy, once through the independent decoder.
/// `durable`: look only at what the medium held at its last flush() (after a successful
/// Package::flush that is everything: the medium may defer writes until it is flushed).
pub fn check_bytes(sess: &Session, want: &J, durable: bool) -> Result<(), (&'static str, String)> {
    let bytes = if durable { sess.med.snap_durable() } else { sess.med.snap() };
    let mut s2 = Session::empty();
    s2.med = crate::media::Medium::new(bytes.clone());
    let r = std::panic::catch_unwind(std::panic::AssertUnwindSafe(|| msi::Package::open(s2.med.handle())));
    match r {
        Ok(Ok(p)) => {
            s2.pkg = Some(p);
            let got = s2.project().map_err(|e| ("bytes-reopen", e))?;
            if got != *want {
                return Err(("bytes-reopen", format!("reopened bytes differ from the expected state: {}", diff(&got, want))));
            }
        }
        Ok(Err(e)) => return Err(("bytes-reopen", format!("the saved bytes do not reopen: {}", e))),
        Err(_) => return Err(("bytes-reopen", "reopening the saved bytes panics".into())),
    }
    let img = codec::decode(&bytes, None).map_err(|e| ("bytes-decoder", format!("independent decoder rejects the saved bytes: {}", e)))?;
    let a = image_tables(&img);
    let b = state_tables(want);
    if a != b {
        return Err(("bytes-decoder", format!("independent decoder reads different rows: {}", diff(&a, &b))));
    }
    let mut st: Vec<J> = img.streams.iter().map(|(n, b)| json!({"name": cps(n), "data": crate::session::stream_desc(b)})).collect();
    st.sort_by(|x, y| x["name"].to_string().cmp(&y["name"].to_string()));
    if J::Array(st.clone()) != want["streams"] {
        return Err(("bytes-decoder", format!("independent decoder lists different streams: {}", diff(&J::Array(st), &want["streams"]))));
    }
    // id 0 in the pool header is the documented alias of the default page (UTF-8)
    if (if img.cp == 0 { 65001 } else { img.cp }) != want["cp"].as_i64().unwrap_or(-1) {
        return Err(("bytes-decoder", format!("code page in the pool header is {} but {} expected", img.cp, want["cp"])));
    }
    Ok(())
}

/// Replays one edge.  Returns the violation (if any) and, when asked, the two trace records.
pub fn run_edge(edge: &J, want_trace: bool) -> (Option<Viol>, Vec<J>) {
    let mut sess = Session::empty();
    let mut trace = Vec::new();
    let starts_from_image = edge["path"].as_array().and_then(|p| p.first()).map(|e| e["op"] == "OpenImage").unwrap_or(false);
    let create = json!({"op":"Create","args":{"ptype":"Installer"}});
    if !starts_from_image && sess.exec(&create) != "Ok" {
        return (Some(Viol { kind: "create", what: "Package::create failed".into(), detail: json!({}) }), trace);
    }
    for (i, ev) in edge["path"].as_array().cloned().unwrap_or_default().iter().enumerate() {
        let r = sess.exec(ev);
        if r != ev["res"].as_str().unwrap_or("") {
            return (Some(Viol { kind: "path", what: format!("path step {} returned {} instead of {} ({})", i, r, ev["res"], sess.last_error), detail: json!({"step": ev}) }), trace);
        }
    }
    let ev = &edge["ev"];
    if want_trace {
        let mut pre = serde_json::Map::new();
        pre.insert("op".into(), json!("Reset"));
        pre.insert("args".into(), json!({"x":0}));
        pre.insert("path".into(), edge["path"].clone());     // how this state was reached (for replay)
        pre.insert("res".into(), json!("Ok"));
        pre.insert("st".into(), log_state(&mut sess));
        trace.push(J::Object(pre));
    }
    // C16: from a clean state, a read-only session (the projection below: table and column
    // inspection, selects, summary getters, stream listing and reading) followed by any close
    // must not write and must leave the bytes identical
    let quiet = edge["preclean"].as_bool().unwrap_or(false)
        && matches!(ev["op"].as_str().unwrap_or(""), "Flush" | "IntoInner" | "DropPkg" | "Reopen" | "Crash");
    let quiet_before = if quiet { Some((sess.med.snap(), sess.med.counters().writes)) } else { None };
    let pre_proj = if sess.is_open() { sess.project().ok() } else { None };
    let writes_before = sess.med.counters().writes;
    let med_before = sess.med.handle();
    // C04 on the medium itself: a call the specification refuses leaves every byte where it was
    let refused_before = if ev["res"] == "Err" && sess.is_open() { Some(sess.med.snap()) } else { None };
    let r = sess.exec(ev);
    if let Some(b0) = refused_before {
        if r == "Err" && sess.med.snap() != b0 {
            return (Some(Viol { kind: "state", what: format!("the refused {} changed bytes on the medium ({} writes)", ev["op"], sess.med.counters().writes.saturating_sub(writes_before)), detail: json!({}) }), trace);
        }
    }
    if let Some((b0, w0)) = quiet_before.clone() {
        let reopened = matches!(ev["op"].as_str().unwrap_or(""), "Reopen" | "Crash");
        let w1 = med_before.counters().writes + if reopened { sess.med.counters().writes } else { 0 };
        if w1 != w0 || med_before.snap() != b0 || (reopened && sess.med.snap() != b0) {
            return (Some(Viol { kind: "quiet", what: format!("read-only session closed by {} issued {} writes; bytes {}", ev["op"], w1 - w0, if med_before.snap() == b0 { "identical" } else { "changed" }), detail: json!({}) }), trace);
        }
    }
    if let Some((b0, _)) = &quiet_before {
        // the same on a real file (every 16th time): msi::open gives the library a read-only File, on which any
        // write fails; msi::open_rw a writable one, whose bytes must stay what they were
        static N: std::sync::atomic::AtomicU64 = std::sync::atomic::AtomicU64::new(0);
        if N.fetch_add(1, std::sync::atomic::Ordering::Relaxed) % 16 == 0 {
            if let Err(e) = file_quiet(b0) {
                return (Some(Viol { kind: "quiet", what: format!("read-only session on a file ({}): {}", ev["op"], e), detail: json!({}) }), trace);
            }
        }
    }
    let writes = sess.med.counters().writes.saturating_sub(writes_before);
    if want_trace {
        let mut post = serde_json::Map::new();
        post.insert("op".into(), ev["op"].clone());
        post.insert("args".into(), ev["args"].clone());
        post.insert("res".into(), json!(r));
        post.insert("st".into(), log_state(&mut sess));
        post.insert("writes".into(), json!(writes));
        trace.push(J::Object(post));
    }
    if r != ev["res"].as_str().unwrap_or("") {
        return (Some(Viol { kind: if r == "panic" { "panic" } else { "res" }, what: format!("{} returned {} where the specification says {} ({})", ev["op"], r, ev["res"], sess.last_error), detail: json!({}) }), trace);
    }
    // tables the specification lists as unchanged are taken from what was observed before the step
    let mut dstj = edge["dst"].clone();
    if let Some(same) = edge["dst"]["same"].as_array() {
        let mut tabs = dstj["tables"].as_array().cloned().unwrap_or_default();
        for n in same {
            let prev = pre_proj.as_ref().and_then(|p| p["tables"].as_array().and_then(|ts| ts.iter().find(|t| &t["name"] == n).cloned()));
            match prev {
                Some(t) => tabs.push(t),
                None => return (Some(Viol { kind: "state", what: format!("table {} should exist unchanged but was not there before", crate::j::from_cps(n)), detail: json!({}) }), trace),
            }
        }
        dstj["tables"] = J::Array(tabs);
        if let Some(o) = dstj.as_object_mut() { o.remove("same"); }
    }
    let want = canon_state(&dstj);
    if edge["open"].as_bool().unwrap_or(false) {
        match sess.project() {
            Ok(got) => {
                if got != want {
                    return (Some(Viol { kind: "state", what: format!("state after {} differs: {}", ev["op"], diff(&got, &want)), detail: json!({"got": got}) }), trace);
                }
                if !sess.last_len_ok {
                    return (Some(Viol { kind: "len", what: "Rows::len() disagrees with the rows yielded".into(), detail: json!({}) }), trace);
                }
            }
            Err(e) => return (Some(Viol { kind: "read", what: format!("reading the state after {} failed: {}", ev["op"], e), detail: json!({}) }), trace),
        }
    }
    // which table streams exist in the container (a new table has none; an emptied one keeps it)
    if let Some(pres) = edge["present"].as_array() {
        let dirty = sess.snapshot().map(|(_, d)| d["fin"].as_bool().unwrap_or(false)).unwrap_or(false);
        match sess.image(sess.is_open() && dirty) {
            Ok(img) => {
                let mut got: Vec<String> = img.tables.iter().filter(|t| t.stream_present).map(|t| t.name.clone()).collect();
                let mut want_p: Vec<String> = pres.iter().map(crate::j::from_cps).collect();
                got.sort();
                want_p.sort();
                if got != want_p {
                    return (Some(Viol { kind: "bytes-decoder", what: format!("after {}: table streams present in the container {:?}, expected {:?}", ev["op"], got, want_p), detail: json!({}) }), trace);
                }
            }
            Err(e) => return (Some(Viol { kind: "bytes-decoder", what: format!("after {}: independent decoder cannot read the medium: {}", ev["op"], e), detail: json!({}) }), trace),
        }
    }
    if edge["clean"].as_bool().unwrap_or(false) {
        // a clean point: the bytes on the medium right now must already hold everything
        let after_flush = ev["op"] == "Flush" && ev["res"] == "Ok";
        if let Err((k, e)) = check_bytes(&sess, &want, after_flush) {
            return (Some(Viol { kind: k, what: format!("after {}: {}", ev["op"], e), detail: json!({}) }), trace);
        }
    }
    (None, trace)
}

/// every read operation of the public API, on any medium
fn read_everything<F: std::io::Read + std::io::Seek>(p: &mut msi::Package<F>) -> std::io::Result<u64> {
    let mut n = 0u64;
    let _ = (p.package_type(), p.database_codepage(), p.has_digital_signature());
    let s = p.summary_info();
    let _ = (s.arch(), s.author(), s.codepage(), s.comments(), s.creating_application(), s.creation_time(), s.languages(), s.subject(), s.title(), s.uuid(), s.word_count());
    let names: Vec<String> = p.tables().map(|t| t.name().to_string()).collect();
    for t in &names {
        if let Some(tab) = p.get_table(t) {
            for c in tab.columns() {
                let _ = (c.name(), c.coltype(), c.is_nullable(), c.is_primary_key(), c.is_localizable(), c.value_range(), c.category(), c.enum_values());
            }
        }
        for r in p.select_rows(msi::Select::table(t.as_str()))? {
            n += r.len() as u64;
        }
    }
    let streams: Vec<String> = p.streams().collect();
    for sname in &streams {
        let mut rd = p.read_stream(sname)?;
        let mut b = Vec::new();
        std::io::Read::read_to_end(&mut rd, &mut b)?;
        n += b.len() as u64;
    }
    Ok(n)
}

/// C16 on real files: open read-only / read-write, read everything, close; the file keeps its bytes.
fn file_quiet(bytes: &[u8]) -> Result<(), String> {
    static K: std::sync::atomic::AtomicU64 = std::sync::atomic::AtomicU64::new(0);
    let dir = std::env::temp_dir().join(format!("mv-quiet-{}", std::process::id()));
    std::fs::create_dir_all(&dir).map_err(|e| e.to_string())?;
    let path = dir.join(format!("{}.msi", K.fetch_add(1, std::sync::atomic::Ordering::Relaxed)));
    std::fs::write(&path, bytes).map_err(|e| e.to_string())?;
    let r = (|| -> Result<(), String> {
        for rw in [false, true] {
            let r = std::panic::catch_unwind(|| -> std::io::Result<u64> {
                let mut p = if rw { msi::open_rw(&path)? } else { msi::open(&path)? };
                let n = read_everything(&mut p)?;
                if rw {
                    p.flush()?;             // a flush of a session that changed nothing
                }
                drop(p);
                Ok(n)
            });
            match r {
                Err(_) => return Err(format!("panic ({})", if rw { "open_rw" } else { "open" })),
                Ok(Err(e)) => return Err(format!("{} then read-only calls failed: {}", if rw { "open_rw" } else { "open" }, e)),
                Ok(Ok(_)) => {}
            }
            let after = std::fs::read(&path).map_err(|e| e.to_string())?;
            if after != bytes {
                return Err(format!("the file changed under {}", if rw { "open_rw" } else { "open" }));
            }
        }
        Ok(())
    })();
    let _ = std::fs::remove_file(&path);
    let _ = std::fs::remove_dir(&dir);     // succeeds when no other thread has a file in it
    r
}

pub fn main(args: &Args) -> i32 {
    let threads = args.num("threads", 8) as usize;
    let trace_every = args.num("trace-every", 0);
    let max_viol = args.num("max-viol", 50) as usize;
    let tag = args.get("tag").unwrap_or("EDGE").to_string();
    let input: Box<dyn BufRead> = match args.get("edges") {
        Some(p) => Box::new(std::io::BufReader::new(std::fs::File::open(p).expect("edges file"))),
        None => Box::new(std::io::BufReader::new(std::io::stdin())),
    };
    let queue: Arc<Mutex<VecDeque<(u64, String)>>> = Arc::new(Mutex::new(VecDeque::new()));
    let done = Arc::new(Mutex::new(false));
    let viols: Arc<Mutex<Vec<J>>> = Arc::new(Mutex::new(Vec::new()));
    // recorded steps are kept as text (a parsed JSON tree is several times larger) and their number is capped: the
    // walk of a large model would otherwise hold tens of gigabytes until the end
    let max_traces = args.num("max-traces", 20000) as usize;
    let traces: Arc<Mutex<Vec<(u64, Vec<String>)>>> = Arc::new(Mutex::new(Vec::new()));
    let stats: Arc<Mutex<(u64, std::collections::BTreeMap<String, u64>, Vec<J>)>> = Arc::new(Mutex::new((0, Default::default(), Vec::new())));
    let mut handles = Vec::new();
    for _ in 0..threads {
        let (queue, done, viols, traces, stats, tag) = (queue.clone(), done.clone(), viols.clone(), traces.clone(), stats.clone(), tag.clone());
        handles.push(std::thread::spawn(move || loop {
            let item = queue.lock().unwrap().pop_front();
            match item {
                Some((n, line)) => {
                    let edge = match parse_tagged(&line, &tag) {
                        Some(e) => e,
                        None => continue,
                    };
                    let want_trace = trace_every > 0 && n % trace_every == 0 && traces.lock().unwrap().len() < max_traces;
                    let (v, tr) = run_edge(&edge, want_trace);
                    {
                        let mut st = stats.lock().unwrap();
                        st.0 += 1;
                        let key = format!("{}:{}", edge["ev"]["op"].as_str().unwrap_or("?"), edge["ev"]["res"].as_str().unwrap_or("?"));
                        *st.1.entry(key).or_insert(0) += 1;
                        if st.2.len() < 3 {
                            st.2.push(json!({"path": edge["path"], "ev": edge["ev"]}));
                        }
                    }
                    if !tr.is_empty() {
                        let lines: Vec<String> = tr.iter().map(|e| e.to_string()).collect();
                        drop(tr);
                        traces.lock().unwrap().push((n, lines));
                    }
                    if let Some(v) = v {
                        let mut vs = viols.lock().unwrap();
                        if vs.len() < max_viol {
                            vs.push(json!({"kind": v.kind, "op": edge["ev"]["op"], "what": v.what, "edge": {"path": edge["path"], "ev": edge["ev"], "dst": edge["dst"], "open": edge["open"], "clean": edge["clean"]}, "detail": v.detail}));
                        }
                    }
                }
                None => {
                    if *done.lock().unwrap() {
                        break;
                    }
                    std::thread::sleep(std::time::Duration::from_millis(2));
                }
            }
        }));
    }
    let mut n: u64 = 0;
    let mut other = Vec::new();
    let pre = format!("<<\"{}\", ", tag);
    for line in input.lines() {
        let line = match line {
            Ok(l) => l,
            Err(_) => break,
        };
        if line.starts_with(&pre) {
            loop {
                let len = queue.lock().unwrap().len();
                if len < 10000 {
                    break;
                }
                std::thread::sleep(std::time::Duration::from_millis(5));
            }
            queue.lock().unwrap().push_back((n, line));
            n += 1;
        } else {
            other.push(line);
        }
    }
    *done.lock().unwrap() = true;
    for h in handles {
        let _ = h.join();
    }
    if let Some(p) = args.get("tlc-log") {
        let mut f = std::fs::File::create(p).expect("tlc log");
        for l in &other {
            let _ = writeln!(f, "{}", l);
        }
    }
    if let Some(p) = args.get("trace") {
        let mut f = std::io::BufWriter::new(std::fs::File::create(p).expect("trace file"));
        let mut tr = traces.lock().unwrap();
        tr.sort_by_key(|t| t.0);
        for (_, evs) in tr.iter() {
            for e in evs {
                let _ = writeln!(f, "{}", e);
            }
        }
    }
    let vs = viols.lock().unwrap();
    let st = stats.lock().unwrap();
    let out = json!({"edges": st.0, "by_event": st.1, "samples": st.2, "violations": vs.len(), "traced_edges": traces.lock().unwrap().len()});
    println!("WALK {}", out);
    if let Some(p) = args.get("viol") {
        let mut f = std::fs::File::create(p).expect("viol file");
        for v in vs.iter() {
            let _ = writeln!(f, "{}", v);
        }
    }
    if vs.is_empty() { 0 } else { 1 }
}
