//! The independent ENCODER of the MSI format (C02): turns an image description emitted by TLC
//! (MC_Foreign.tla: explicit pool, cells of every table stream, layout choices) into bytes, using
//! only `cfb` and the reference code-page wiring.
use crate::codec::{pack_name, ref_encode, CLSID_INSTALLER, CLSID_PATCH, CLSID_TRANSFORM};
use crate::j::from_cps;
use crate::propset::FMTID;
use crate::session::stream_bytes;
use serde_json::Value as J;
use std::io::{Cursor, Write};

fn put16(v: &mut Vec<u8>, x: u16) {
    v.extend_from_slice(&x.to_le_bytes());
}
fn put32(v: &mut Vec<u8>, x: u32) {
    v.extend_from_slice(&x.to_le_bytes());
}

/// property values of the summary stream from the abstract summary (same rules as the library's
/// documented layout: 1 code page i16, 2 title, 3 subject, 4 author, 6 comments, 7 template,
/// 9 revision, 12 creation time, 15 word count, 18 creating application)
pub fn summary_props(sum: &J, cp: i64) -> Vec<(u32, Vec<u8>)> {
    let mut out: Vec<(u32, Vec<u8>)> = Vec::new();
    let enc_str = |s: &str| -> Vec<u8> {
        let b = ref_encode(cp, s).unwrap_or_default();
        let mut v = Vec::new();
        put32(&mut v, 30);
        put32(&mut v, b.len() as u32 + 1);
        v.extend_from_slice(&b);
        v.push(0);
        while v.len() % 4 != 0 {
            v.push(0);
        }
        v
    };
    let mut v = Vec::new();
    put32(&mut v, 2);
    put16(&mut v, cp as u16);
    put16(&mut v, 0);
    out.push((1, v));
    for (f, id) in [("title", 2u32), ("subject", 3), ("author", 4), ("comments", 6), ("creating_application", 18)] {
        if let Some(s) = sum[f].get("s") {
            out.push((id, enc_str(&from_cps(s))));
        }
    }
    let arch = sum["arch"].get("s").map(from_cps);
    let langs: Vec<String> = sum["languages"]["l"].as_array().cloned().unwrap_or_default().iter().map(|x| x.to_string()).collect();
    if let Some(raw) = sum.get("template_raw").and_then(|r| r.as_str()) {
        out.push((7, enc_str(raw)));
    } else if arch.is_some() && langs.is_empty() {
        // a template that names the platform only: other tools write it without the separator
        out.push((7, enc_str(&arch.unwrap_or_default())));
    } else if arch.is_some() || !langs.is_empty() {
        out.push((7, enc_str(&format!("{};{}", arch.unwrap_or_default(), langs.join(",")))));
    }
    if let Some(s) = sum["uuid"].get("s") {
        out.push((9, enc_str(&format!("{{{}}}", from_cps(s).to_uppercase()))));
    }
    if let Some(t) = sum["creation_time"].get("t") {
        let k: u64 = t.as_str().unwrap_or("0").parse().unwrap_or(0);
        let mut v = Vec::new();
        put32(&mut v, 64);
        v.extend_from_slice(&k.to_le_bytes());
        out.push((12, v));
    }
    if let Some(n) = sum["word_count"].get("i") {
        let mut v = Vec::new();
        put32(&mut v, 3);
        put32(&mut v, n.as_i64().unwrap_or(0) as i32 as u32);
        out.push((15, v));
    }
    out
}

/// layout: "asc" (ids ascending, section at 48), "desc" (directory and values in descending id
/// order), "gap" (section offset 64 after zero bytes, values in ascending order)
pub fn summary_stream(sum: &J, cp: i64, layout: &str) -> Vec<u8> {
    let mut props = summary_props(sum, cp);
    // "nocp": no code-page property at all; "cp0": the property holds 0 (both mean the default page, UTF-8)
    if layout == "nocp" {
        props.retain(|p| p.0 != 1);
    } else if layout == "cp0" {
        for p in props.iter_mut().filter(|p| p.0 == 1) {
            p.1[4] = 0;
            p.1[5] = 0;
        }
    }
    props.sort_by_key(|p| p.0);
    if layout == "desc" {
        props.reverse();
    }
    let secoff: u32 = if layout == "gap" { 64 } else { 48 };
    let mut b = Vec::new();
    put16(&mut b, 0xFFFE);
    put16(&mut b, 0);
    put16(&mut b, 10);
    put16(&mut b, 2);
    b.extend_from_slice(&[0u8; 16]);
    put32(&mut b, 1);
    b.extend_from_slice(&FMTID);
    put32(&mut b, secoff);
    while b.len() < secoff as usize {
        b.push(0);
    }
    let n = props.len() as u32;
    let mut off = 8 + 8 * n;
    let mut dir = Vec::new();
    for (id, v) in &props {
        put32(&mut dir, *id);
        put32(&mut dir, off);
        off += v.len() as u32;
    }
    put32(&mut b, off);
    put32(&mut b, n);
    b.extend_from_slice(&dir);
    for (_, v) in &props {
        b.extend_from_slice(v);
    }
    b
}

/// The streams of an image: (root class id, [(container name, bytes)]).
pub fn image_streams(img: &J) -> Result<(String, Vec<(String, Vec<u8>)>), String> {
    let cp = img["cp"].as_i64().unwrap_or(0);
    let long = img["longrefs"].as_bool().unwrap_or(false);
    let clsid = match img["ptype"].as_str().unwrap_or("Installer") {
        "Patch" => CLSID_PATCH,
        "Transform" => CLSID_TRANSFORM,
        _ => CLSID_INSTALLER,
    };
    let mut out: Vec<(String, Vec<u8>)> = Vec::new();
    let mut pool = Vec::new();
    let mut data = Vec::new();
    put32(&mut pool, (cp as u32) | if long { 0x8000_0000 } else { 0 });
    for e in img["pool"].as_array().cloned().unwrap_or_default() {
        let s = from_cps(&e["s"]);
        let b = ref_encode(cp, &s).ok_or("unknown code page")?;
        let rc = e["rc"].as_u64().unwrap_or(0) as u16;
        if b.len() > 0xffff {
            put16(&mut pool, 0);
            put16(&mut pool, (b.len() >> 16) as u16);
        }
        put16(&mut pool, (b.len() & 0xffff) as u16);
        put16(&mut pool, rc);
        data.extend_from_slice(&b);
    }
    out.push((pack_name("_StringPool", true), pool));
    out.push((pack_name("_StringData", true), data));
    let ostreams = img["ostreams"].as_array().cloned().unwrap_or_default();
    for t in img["tables"].as_array().cloned().unwrap_or_default().into_iter().chain(ostreams) {
        let name = from_cps(&t["name"]);
        let words: Vec<i64> = t["words"].as_array().cloned().unwrap_or_default().iter().map(|w| w.as_i64().unwrap_or(0)).collect();
        let rows = t["cells"].as_array().cloned().unwrap_or_default();
        let mut b = Vec::new();
        for (ci, w) in words.iter().enumerate() {
            for r in &rows {
                let c = &r[ci];
                let raw = c.get("raw").and_then(|x| x.as_u64());
                if w & 0x800 != 0 {
                    let v = raw.unwrap_or_else(|| c.get("r").and_then(|x| x.as_u64()).unwrap_or(0)) as u32;
                    b.extend_from_slice(&(v as u16).to_le_bytes());
                    if long {
                        b.push((v >> 16) as u8);
                    }
                } else if w & 0xff == 4 {
                    let v = match (raw, c.get("i")) { (Some(x), _) => x as u32, (_, Some(i)) => (i.as_i64().unwrap() + 0x8000_0000) as u32, _ => 0 };
                    b.extend_from_slice(&v.to_le_bytes());
                } else {
                    let v = match (raw, c.get("i")) { (Some(x), _) => x as u16, (_, Some(i)) => (i.as_i64().unwrap() + 0x8000) as u16, _ => 0 };
                    b.extend_from_slice(&v.to_le_bytes());
                }
            }
        }
        out.push((pack_name(&name, true), b));
    }
    let sum_cp = img["summary"]["codepage"]["i"].as_i64().unwrap_or(65001);
    out.push(("\u{5}SummaryInformation".to_string(), summary_stream(&img["summary"], sum_cp, img["pslayout"].as_str().unwrap_or("asc"))));
    for s in img["streams"].as_array().cloned().unwrap_or_default() {
        out.push((pack_name(&from_cps(&s["name"]), false), stream_bytes(s["data"].as_str().unwrap_or(""))));
    }
    Ok((clsid.to_string(), out))
}

pub fn build_cfb(clsid: &str, streams: &[(String, Vec<u8>)]) -> Result<Vec<u8>, String> {
    let mut comp = cfb::CompoundFile::create(Cursor::new(Vec::new())).map_err(|e| e.to_string())?;
    if let Ok(u) = uuid::Uuid::parse_str(clsid) {
        comp.set_storage_clsid("/", u).map_err(|e| e.to_string())?;
    }
    for (name, bytes) in streams {
        let mut s = comp.create_stream(name).map_err(|e| format!("create {:?}: {}", name, e))?;
        s.write_all(bytes).map_err(|e| e.to_string())?;
        s.flush().map_err(|e| e.to_string())?;
    }
    comp.flush().map_err(|e| e.to_string())?;
    Ok(comp.into_inner().into_inner())
}

pub fn encode_image(img: &J) -> Result<Vec<u8>, String> {
    let (clsid, streams) = image_streams(img)?;
    build_cfb(&clsid, &streams)
}
