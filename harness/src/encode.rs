//! The independent ENCODER of the MSI format (C02): turns an image description emitted by TLC
//! (MC_Foreign.tla: explicit pool, cells of every table stream, layout choices) into bytes, using
//! only `cfb` and the reference code-page wiring.
use crate::codec::{pack_name, ref_encode, CLSID_INSTALLER, CLSID_PATCH, CLSID_TRANSFORM};
use crate::j::from_cps;
use crate::propset::FMTID;
use crate::session::stream_bytes;
use serde_json::Value as J;
use std::io::{Cursor, Write};

fn put16(v: &mut Vec<u8>, x: u16) {
    v.extend_from_slice(&x.to_le_bytes());
}
fn put32(v: &mut Vec<u8>, x: u32) {
    v.extend_from_slice(&x.to_le_bytes());
}

/// property values of the summary stream from the abstract summary (same rules as the library's
/// documented layout: 1 code page i16, 2 title, 3 subject, 4 author, 6 comments, 7 template,
/// 9 revision, 12 creation time, 15 word count, 18 creating application)
pub fn summary_props(sum: &J, cp: i64) -> Vec<(u32, Vec<u8>)> {
    let mut out: Vec<(u32, Vec<u8>)> = Vec::new();
    let enc_str = |s: &str| -> Vec<u8> {
        let b = ref_encode(cp, s).unwrap_or_default();
        let mut v = Vec::new();
        put32(&mut v, 30);
        put32(&mut v, b.len() as u32 + 1);
        v.extend_from_slice(&b);
        v.push(0);
        while v.len() % 4 != 0 {
            v.push(0);
        }
        v
    };
    let mut v = Vec::new();
    put32(&mut v, 2);
    put16(&mut v, cp as u16);
    put16(&mut v, 0);
    out.push((1, v));
    for (f, id) in [("title", 2u32), ("subject", 3), ("author", 4), ("comments", 6), ("creating_application", 18)] {
        if let Some(s) = sum[f].get("s") {
            out.push((id, enc_str(&from_cps(s))));
        }
    }
    let arch = sum["arch"].get("s").map(from_cps);
    let langs: Vec<String> = sum["languages"]["l"].as_array().cloned().unwrap_or_default().iter().map(|x| x.to_string()).collect();
    if arch.is_some() || !langs.is_empty() {
        out.push((7, enc_str(&format!("{};{}", arch.unwrap_or_default(), langs.join(",")))));
    }
    if let Some(s) = sum["uuid"].get("s") {
        out.push((9, enc_str(&format!("{{{}}}", from_cps(s).to_uppercase()))));
    }
    if let Some(t) = sum["creation_time"].get("t") {
        let k: u64 = t.as_str().unwrap_or("0").parse().unwrap_or(0);
        let mut v = Vec::new();
        put32(&mut v, 64);
        v.extend_from_slice(&k.to_le_bytes());
        out.push((12, v));
    }
    if let Some(n) = sum["word_count"].get("i") {
        let mut v = Vec::new();
        put32(&mut v, 3);
        put32(&mut v, n.as_i64().unwrap_or(0) as i32 as u32);
        out.push((15, v));
    }
    out
}

/// layout: "asc" (ids ascending, section at 48), "desc" (directory and values in descending id
/// order), "gap" (section offset 64 after zero bytes, values in ascending order)
pub fn summary_stream(sum: &J, cp: i64, layout: &str) -> Vec<u8> {
    let mut props = summary_props(sum, cp);
    props.sort_by_key(|p| p.0);
    if layout == "desc" {
        props.reverse();
    }
    let secoff: u32 = if layout == "gap" { 64 } else { 48 };
    let mut b = Vec::new();
    put16(&mut b, 0xFFFE);
    put16(&mut b, 0);
    put16(&mut b, 10);
    put16(&mut b, 2);
    b.extend_from_slice(&[0u8; 16]);
    put32(&mut b, 1);
    b.extend_from_slice(&FMTID);
    put32(&mut b, secoff);
    while b.len() < secoff as usize {
        b.push(0);
    }
    let n = props.len() as u32;
    let mut off = 8 + 8 * n;
    let mut dir = Vec::new();
    for (id, v) in &props {
        put32(&mut dir, *id);
        put32(&mut dir, off);
        off += v.len() as u32;
    }
    put32(&mut b, off);
    put32(&mut b, n);
    b.extend_from_slice(&dir);
    for (_, v) in &props {
        b.extend_from_slice(v);
    }
    b
}

pub fn encode_image(img: &J) -> Result<Vec<u8>, String> {
    let cp = img["cp"].as_i64().unwrap_or(0);
    let long = img["longrefs"].as_bool().unwrap_or(false);
    let int1 = img["int1"].as_bool().unwrap_or(false);
    let mut comp = cfb::CompoundFile::create(Cursor::new(Vec::new())).map_err(|e| e.to_string())?;
    let clsid = match img["ptype"].as_str().unwrap_or("Installer") {
        "Patch" => CLSID_PATCH,
        "Transform" => CLSID_TRANSFORM,
        _ => CLSID_INSTALLER,
    };
    comp.set_storage_clsid("/", uuid::Uuid::parse_str(clsid).unwrap()).map_err(|e| e.to_string())?;
    // string pool
    let mut pool = Vec::new();
    let mut data = Vec::new();
    put32(&mut pool, (cp as u32) | if long { 0x8000_0000 } else { 0 });
    for e in img["pool"].as_array().cloned().unwrap_or_default() {
        let s = from_cps(&e["s"]);
        let b = ref_encode(cp, &s).ok_or("unknown code page")?;
        let rc = e["rc"].as_u64().unwrap_or(0) as u16;
        if b.len() > 0xffff {
            put16(&mut pool, 0);
            put16(&mut pool, (b.len() >> 16) as u16);
        }
        put16(&mut pool, (b.len() & 0xffff) as u16);
        put16(&mut pool, rc);
        data.extend_from_slice(&b);
    }
    let mut put = |name: &str, bytes: &[u8]| -> Result<(), String> {
        let mut s = comp.create_stream(name).map_err(|e| format!("create {:?}: {}", name, e))?;
        s.write_all(bytes).map_err(|e| e.to_string())?;
        s.flush().map_err(|e| e.to_string())
    };
    put(&pack_name("_StringPool", true), &pool)?;
    put(&pack_name("_StringData", true), &data)?;
    for t in img["tables"].as_array().cloned().unwrap_or_default() {
        let name = from_cps(&t["name"]);
        let words: Vec<i64> = t["words"].as_array().cloned().unwrap_or_default().iter().map(|w| w.as_i64().unwrap_or(0)).collect();
        let rows = t["cells"].as_array().cloned().unwrap_or_default();
        let mut b = Vec::new();
        for (ci, w) in words.iter().enumerate() {
            for r in &rows {
                let c = &r[ci];
                if w & 0x800 != 0 {
                    let v = c.get("r").and_then(|x| x.as_u64()).unwrap_or(0) as u32;
                    b.extend_from_slice(&(v as u16).to_le_bytes());
                    if long {
                        b.push((v >> 16) as u8);
                    }
                } else if w & 0xff == 4 {
                    let v = match c.get("i") { Some(i) => (i.as_i64().unwrap() + 0x8000_0000) as u32, None => 0 };
                    b.extend_from_slice(&v.to_le_bytes());
                } else {
                    let v = match c.get("i") { Some(i) => (i.as_i64().unwrap() + 0x8000) as u16, None => 0 };
                    b.extend_from_slice(&v.to_le_bytes());
                }
            }
        }
        put(&pack_name(&name, true), &b)?;
    }
    // the integer field size 1 variant (some writers store 1 for 16-bit columns) is a property of
    // the _Columns rows, which TLC already put into the image when int1 is chosen
    let _ = int1;
    let sum_cp = img["summary"]["codepage"]["i"].as_i64().unwrap_or(65001);
    put("\u{5}SummaryInformation", &summary_stream(&img["summary"], sum_cp, img["pslayout"].as_str().unwrap_or("asc")))?;
    for s in img["streams"].as_array().cloned().unwrap_or_default() {
        put(&pack_name(&from_cps(&s["name"]), false), &stream_bytes(s["data"].as_str().unwrap_or("")))?;
    }
    comp.flush().map_err(|e| e.to_string())?;
    Ok(comp.into_inner().into_inner())
}
