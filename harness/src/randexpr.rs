//! impl -> spec for C13 / C12: random deep expression trees and select trees evaluated by the
//! library and logged for Trace_Expr.tla.
use crate::j::{self, cps};
use crate::queries::to_select;
use crate::rnd::Rng;
use crate::session::Session;
use crate::Args;
use msi::{Column, Delete, Insert, Select, Value};
use serde_json::{json, Value as J};
use std::io::Write;
use std::panic::{catch_unwind, AssertUnwindSafe};

const BIN: [&str; 17] = ["eq", "ne", "lt", "le", "gt", "ge", "add", "sub", "mul", "div", "band", "bor", "bxor", "shl", "shr", "and", "or"];
const UN: [&str; 3] = ["neg", "bitnot", "not"];
const LITS: [i64; 11] = [0, 1, -1, 2, 31, 32, -2147483648, 2147483647, 65536, -7, 1000];

const STRS: [&str; 20] = ["", "0", "00", "-0", "+0", "007", "0x", "a", "b\u{e9}", "A", "aa", "ab", "b", "10", "9", "-1", " ", "z\u{10400}", "\u{e9}", "abcabcabc"];

/// Integers from all over the 32-bit range: the usual suspects, neighbours of powers of two, the
/// square-root-of-overflow region, small ones, and anything.
pub fn any_int(rng: &mut Rng) -> i64 {
    let v = match rng.below(10) {
        0..=3 => *rng.pick(&LITS),
        4 | 5 => {
            let p = 1i64 << rng.below(32);
            *rng.pick(&[p, -p, p - 1, p + 1, -p - 1, -p + 1])
        }
        6 => (46339 + rng.below(4) as i64) * if rng.chance(1, 2) { 1 } else { -1 },
        7 => rng.below(41) as i64 - 20,
        _ => (rng.next() as u32) as i32 as i64,
    };
    v.clamp(-2147483648, 2147483647)
}
fn lit(rng: &mut Rng) -> J {
    match rng.below(8) {
        0 => json!({"n": 0}),
        1..=3 => json!({"s": cps(*rng.pick(&STRS))}),
        _ => json!({"i": any_int(rng)}),
    }
}
fn expr(rng: &mut Rng, depth: u32, cols: &[&str]) -> J {
    if depth == 0 || rng.chance(1, 4) {
        if rng.chance(1, 2) && !cols.is_empty() {
            return json!({"col": cps(*rng.pick(cols))});
        }
        return json!({"lit": lit(rng)});
    }
    if rng.chance(1, 5) {
        json!({"un": *rng.pick(&UN), "a": expr(rng, depth - 1, cols)})
    } else {
        json!({"bin": *rng.pick(&BIN), "l": expr(rng, depth - 1, cols), "r": expr(rng, depth - 1, cols)})
    }
}
fn table_rows(rng: &mut Rng) -> Vec<Vec<Value>> {
    let mut rows = Vec::new();
    for k in 1..=3 {
        if rng.chance(2, 3) {
            rows.push(vec![Value::Int(k), match rng.below(4) { 0 => Value::Null, n => Value::Int(n as i32) }]);
        }
    }
    rows
}
/// rows of C(K key, S string nullable, N i32 not null): up to five of them
fn table_c_rows(rng: &mut Rng) -> Vec<Vec<Value>> {
    let mut rows = Vec::new();
    for k in 1..=5 {
        if rng.chance(1, 2) {
            let s = match rng.below(6) { 0 => Value::Null, 1 => Value::Str("a".into()), 2 => Value::Str("b".into()), 3 => Value::Str("1".into()), 4 => Value::Str("ab".into()), _ => Value::Str("2".into()) };
            rows.push(vec![Value::Int(k), s, Value::Int(rng.below(4) as i32)]);
        }
    }
    rows
}
fn select(rng: &mut Rng, depth: u32) -> (J, Vec<String>) {
    // returns the tree and the column names its result has (to build conditions that mostly resolve)
    if depth == 0 || rng.chance(1, 3) {
        let t = *rng.pick(&["A", "B", "C", "A", "B", "C", "Z"]);
        let cols = match t { "A" => vec!["K".to_string(), "V".to_string()], "C" => vec!["K".to_string(), "S".to_string(), "N".to_string()], _ => vec!["K".to_string(), "W".to_string()] };
        return (json!({"table": cps(t)}), cols.into_iter().map(|c| format!("{}\u{1}{}", t, c)).collect());
    }
    if rng.chance(1, 2) {
        let (l, lc) = select(rng, depth - 1);
        let (r, rc) = select(rng, depth - 1);
        let names: Vec<String> = lc.iter().chain(rc.iter()).map(|c| c.replace('\u{1}', ".")).collect();
        let refs: Vec<&str> = names.iter().map(|s| s.as_str()).collect();
        let on = if rng.chance(1, 8) { json!({"lit": {"i": 1}}) } else { expr(rng, 2, &refs) };
        let kind = if rng.chance(1, 2) { "inner" } else { "left" };
        (json!({"join": kind, "l": l, "r": r, "on": on}), names.into_iter().collect())
    } else {
        let (s, sc) = select(rng, depth - 1);
        // a named (unjoined, unprojected) input keeps bare column names
        // ... now and then the table-qualified form is tried on it all the same (it does not resolve there)
        let qualify = rng.chance(1, 12);
        let names: Vec<String> = sc.iter().map(|c| match c.split_once('\u{1}') { Some((a, b)) => if qualify { format!("{}.{}", a, b) } else { b.to_string() }, None => c.clone() }).collect();
        let refs: Vec<&str> = names.iter().map(|s| s.as_str()).collect();
        let cond = if rng.chance(1, 3) { json!({"lit": {"i": 1}}) } else { expr(rng, 2, &refs) };
        let mut cols: Vec<String> = Vec::new();
        if rng.chance(1, 2) {
            for _ in 0..(1 + rng.below(3)) {
                cols.push(if rng.chance(1, 10) { "Nope".to_string() } else { rng.pick(&names).clone() });
            }
        }
        let out = if cols.is_empty() { names.clone() } else { cols.clone() };
        (json!({"sel": s, "cols": cols.iter().map(|c| cps(c)).collect::<Vec<_>>(), "cond": cond}), out)
    }
}

pub fn main(args: &Args) -> i32 {
    let seed = args.num("seed", 1);
    let n = args.num("n", 2000);
    let mut rng = Rng::new(seed);
    let mut out = std::io::BufWriter::new(std::fs::File::create(args.get("trace").expect("--trace")).expect("trace"));
    // a package with a row source for expressions and two tables for selects
    let mut sess = Session::empty();
    sess.exec(&json!({"op":"Create","args":{"ptype":"Installer"}}));
    let p = sess.pkg.as_mut().unwrap();
    p.create_table("E", vec![Column::build("K").primary_key().int16(), Column::build("x").nullable().int32(), Column::build("y").nullable().int32(), Column::build("s").nullable().string(0)]).unwrap();
    p.create_table("A", vec![Column::build("K").primary_key().int16(), Column::build("V").nullable().int16()]).unwrap();
    p.create_table("B", vec![Column::build("K").primary_key().int16(), Column::build("W").nullable().int16()]).unwrap();
    p.create_table("C", vec![Column::build("K").primary_key().int16(), Column::build("S").nullable().string(0), Column::build("N").int32()]).unwrap();
    let mut lines = 0u64;
    for i in 0..n {
        if i % 3 != 0 {
            // expression on a real row
            let xv = if rng.chance(1, 6) { Value::Null } else { Value::Int(any_int(&mut rng).max(-2147483647) as i32) };
            let yv = if rng.chance(1, 6) { Value::Null } else { Value::Int(any_int(&mut rng).max(-2147483647) as i32) };
            let sv = match rng.below(4) { 0 => Value::Null, 1 => Value::Str("a".into()), 2 => Value::Str("zz".into()), _ => Value::Str((*rng.pick(&STRS[1..])).into()) };
            let _ = p.delete_rows(Delete::from("E"));
            let _ = p.insert_rows(Insert::into("E").row(vec![Value::Int(1), xv, yv, sv]));
            let row = match p.select_rows(Select::table("E")).ok().and_then(|mut r| r.next()) { Some(r) => r, None => continue };
            let e = expr(&mut rng, 6, &["x", "y", "s"]);
            let r = catch_unwind(AssertUnwindSafe(|| j::to_expr(&e).eval(&row)));
            let vals: Vec<J> = (0..row.len()).map(|k| j::val(&row[k])).collect();
            let (got, panic) = match r { Ok(v) => (j::val(&v), false), Err(_) => (json!({"n": 0}), true) };
            let _ = writeln!(out, "{}", json!({"k": "e", "e": e, "names": [cps("K"), cps("x"), cps("y"), cps("s")], "vals": vals, "got": got, "panic": panic}));
        } else {
            let ra = table_rows(&mut rng);
            let rb = table_rows(&mut rng);
            let rc = table_c_rows(&mut rng);
            for (t, rows) in [("A", &ra), ("B", &rb), ("C", &rc)] {
                let _ = p.delete_rows(Delete::from(t));
                if !rows.is_empty() {
                    let _ = p.insert_rows(Insert::into(t).rows(rows.clone()));
                }
            }
            let (q, _) = select(&mut rng, 4);
            let r = catch_unwind(AssertUnwindSafe(|| match p.select_rows(to_select(&q)) {
                Ok(rows) => {
                    let cols: Vec<J> = rows.columns().iter().map(|c| json!({"name": cps(c.name()), "nullable": c.is_nullable()})).collect();
                    let out: Vec<J> = rows.map(|r| J::Array((0..r.len()).map(|i| j::val_norm(&r[i])).collect())).collect();
                    json!({"cols": cols, "rows": out})
                }
                Err(_) => json!({"err": 1}),
            }));
            let (got, panic) = match r { Ok(v) => (v, false), Err(_) => (json!({"err": 1}), true) };
            let tj = |rows: &Vec<Vec<Value>>| J::Array(rows.iter().map(|r| J::Array(r.iter().map(j::val).collect())).collect());
            let _ = writeln!(out, "{}", json!({"k": "q", "a": tj(&ra), "b": tj(&rb), "c": tj(&rc), "q": q, "got": got, "panic": panic}));
        }
        lines += 1;
    }
    println!("RANDEXPR {}", json!({"lines": lines}));
    0
}
