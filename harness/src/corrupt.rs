//! C09: structure-aware corruptions enumerated by TLC (MC_Corrupt.tla) applied to independently
//! encoded images, plus byte-level mutations and random bytes.  Every call must return a value or
//! an error: a panic is a violation, attributed to its source location.
use crate::codec::pack_name;
use crate::encode::{build_cfb, image_streams};
use crate::j::from_cps;
use crate::media::Medium;
use crate::rnd::Rng;
use crate::walk::parse_tagged;
use crate::Args;
use msi::{CodePage, Column, Delete, Expr, Insert, Package, Select, Update, Value};
use serde_json::{json, Value as J};
use std::collections::BTreeMap;
use std::io::{BufRead, Read, Write};
use std::panic::{catch_unwind, AssertUnwindSafe};
use std::sync::Mutex;

static LAST_PANIC: Mutex<String> = Mutex::new(String::new());

pub fn install_hook() {
    std::panic::set_hook(Box::new(|info| {
        let loc = info.location().map(|l| format!("{}:{}", l.file(), l.line())).unwrap_or_else(|| "?".into());
        let msg = if let Some(s) = info.payload().downcast_ref::<&str>() { s.to_string() } else if let Some(s) = info.payload().downcast_ref::<String>() { s.clone() } else { "?".into() };
        let short: String = msg.chars().take(80).collect();
        if std::env::var("MV_PANIC_LOG").is_ok() {
            eprintln!("PANIC {} ({})", loc, short);
        }
        *LAST_PANIC.lock().unwrap() = format!("{} ({})", loc.replace("/repo/", ""), short);
    }));
}

fn guard<T, F: FnOnce() -> T>(what: &str, out: &mut Vec<(String, String)>, f: F) -> Option<T> {
    // A caller without catch_unwind is gone after the first panic, and the object it was using may
    // be left mid-update (the container's lock is poisoned): only the FIRST panic per file is the
    // library's answer to that file, so the rest of the battery is skipped.
    if !out.is_empty() {
        return None;
    }
    match catch_unwind(AssertUnwindSafe(f)) {
        Ok(v) => Some(v),
        Err(_) => {
            out.push((what.to_string(), LAST_PANIC.lock().unwrap().clone()));
            None
        }
    }
}

fn value_for(c: &Column, k: i32) -> Value {
    match c.coltype() {
        msi::ColumnType::Str(_) => Value::Str(format!("zz{}", k)),
        _ => Value::Int(1000 + k),
    }
}

/// Opens the bytes and runs every read operation, then every kind of mutating operation and a
/// flush.  Returns (open result, panics as (operation, location)).
pub fn battery(bytes: Vec<u8>) -> (String, Vec<(String, String)>) {
    let mut panics = Vec::new();
    let med = Medium::new(bytes);
    let opened = guard("open", &mut panics, || Package::open(med.handle()));
    let mut p = match opened {
        Some(Ok(p)) => p,
        Some(Err(_)) => return ("Err".into(), panics),
        None => return ("panic".into(), panics),
    };
    // ---- read operations
    guard("summary getters", &mut panics, || {
        let _ = crate::session::summary_json(&p);
        let _ = p.package_type();
        let _ = p.database_codepage();
        let _ = p.has_digital_signature();
    });
    let names: Vec<String> = guard("tables", &mut panics, || p.tables().map(|t| t.name().to_string()).collect()).unwrap_or_default();
    for n in &names {
        guard("describe table", &mut panics, || {
            if let Some(t) = p.get_table(n) {
                for c in t.columns() {
                    let _ = crate::j::col(c, None);
                    let _ = t.has_column(c.name());
                }
                let _ = t.primary_key_indices();
            }
        });
        guard("select", &mut panics, || {
            if let Ok(rows) = p.select_rows(Select::table(n.as_str())) {
                let _ = rows.len();
                for r in rows {
                    for i in 0..r.len() {
                        let _ = r[i].to_string();
                    }
                }
            }
        });
        guard("select with condition and projection", &mut panics, || {
            let first = p.get_table(n).and_then(|t| t.columns().first().map(|c| c.name().to_string()));
            if let Some(c) = first {
                let q = Select::table(n.as_str()).columns(&[c.as_str()]).with(Expr::col(c.as_str()).eq(Expr::string("x")).or(Expr::col(c.as_str()).gt(Expr::integer(0))));
                if let Ok(rows) = p.select_rows(q) {
                    let _ = rows.count();
                }
            }
        });
    }
    if names.len() >= 2 {
        for (a, b) in [(0usize, 1usize), (1, 0), (0, 0), (names.len() - 1, 0)] {
            guard("join", &mut panics, || {
                let ca = p.get_table(&names[a]).and_then(|t| t.columns().first().map(|c| c.name().to_string())).unwrap_or_default();
                let cb = p.get_table(&names[b]).and_then(|t| t.columns().first().map(|c| c.name().to_string())).unwrap_or_default();
                let on = Expr::col(format!("{}.{}", names[a], ca)).eq(Expr::col(format!("{}.{}", names[b], cb)));
                if let Ok(rows) = p.select_rows(Select::table(names[a].as_str()).left_join(Select::table(names[b].as_str()), on)) {
                    let _ = rows.count();
                }
                let on = Expr::col(format!("{}.{}", names[a], ca)).ne(Expr::col(format!("{}.{}", names[b], cb)));
                if let Ok(rows) = p.select_rows(Select::table(names[a].as_str()).inner_join(Select::table(names[b].as_str()), on)) {
                    let _ = rows.count();
                }
            });
        }
    }
    guard("streams", &mut panics, || {
        let ss: Vec<String> = p.streams().collect();
        for s in ss {
            let _ = p.has_stream(&s);
            if let Ok(mut r) = p.read_stream(&s) {
                let mut b = Vec::new();
                let _ = r.read_to_end(&mut b);
            }
        }
    });
    // ---- mutating operations, then flush
    let users: Vec<String> = names.iter().filter(|n| !n.starts_with('_')).cloned().collect();
    for (k, n) in names.iter().enumerate() {
        guard("insert", &mut panics, || {
            let row: Option<Vec<Value>> = p.get_table(n).map(|t| t.columns().iter().map(|c| value_for(c, k as i32)).collect());
            if let Some(row) = row {
                let _ = p.insert_rows(Insert::into(n.as_str()).row(row));
            }
        });
        guard("update", &mut panics, || {
            let col: Option<(String, Value)> = p.get_table(n).and_then(|t| t.columns().iter().rev().next().map(|c| (c.name().to_string(), value_for(c, 7))));
            if let Some((c, v)) = col {
                let _ = p.update_rows(Update::table(n.as_str()).set(c.as_str(), v));
            }
        });
        guard("flush", &mut panics, || {
            let _ = p.flush();
        });
    }
    for n in users.iter() {
        guard("delete", &mut panics, || {
            let _ = p.delete_rows(Delete::from(n.as_str()));
        });
    }
    guard("create table", &mut panics, || {
        let _ = p.create_table("Znew", vec![Column::build("K").primary_key().int16(), Column::build("V").nullable().string(10)]);
        let _ = p.insert_rows(Insert::into("Znew").row(vec![Value::Int(1), Value::Str("v".into())]));
    });
    if let Some(n) = users.first() {
        guard("drop table", &mut panics, || {
            let _ = p.drop_table(n);
        });
    }
    guard("stream write/remove", &mut panics, || {
        if let Ok(mut w) = p.write_stream("zs") {
            let _ = w.write_all(b"data");
            let _ = w.flush();
        }
        let _ = p.remove_stream("zs");
        let _ = p.remove_digital_signature();
    });
    // every summary setter, on whatever the file's property set held (each setter reads the old value)
    guard("summary set_arch", &mut panics, || p.summary_info_mut().set_arch("arm64"));
    guard("summary set_languages", &mut panics, || p.summary_info_mut().set_languages(&[msi::Language::from_code(1033), msi::Language::from_code(1031)]));
    guard("summary clear_arch", &mut panics, || p.summary_info_mut().clear_arch());
    guard("summary clear_languages", &mut panics, || p.summary_info_mut().clear_languages());
    guard("summary setters", &mut panics, || {
        let s = p.summary_info_mut();
        s.set_arch("x64");
        s.set_author("a");
        s.set_comments("c");
        s.set_creating_application("app");
        s.set_creation_time(std::time::UNIX_EPOCH);
        s.set_subject("s");
        s.set_title("t");
        s.set_uuid(uuid::Uuid::nil());
        s.set_word_count(2);
        s.clear_author();
        s.clear_comments();
        s.clear_creating_application();
        s.clear_creation_time();
        s.clear_subject();
        s.clear_title();
        s.clear_uuid();
        s.clear_word_count();
        s.set_codepage(CodePage::Windows1252);
    });
    guard("summary + code page", &mut panics, || {
        p.summary_info_mut().set_author("a");
        p.set_database_codepage(CodePage::Utf8);
    });
    guard("flush", &mut panics, || {
        let _ = p.flush();
    });
    if panics.is_empty() {
        guard("into_inner", &mut panics, || {
            let _ = p.into_inner();
        });
    } else {
        // After a panic the battery stopped; the package object still has to go.  Its Drop saves pending changes and
        // may well panic again (the container's lock is poisoned): that second panic is not the library's answer to the
        // file - the first one is - so it is absorbed here instead of taking the worker process down.
        let _ = catch_unwind(AssertUnwindSafe(move || drop(p)));
    }
    ("Ok".into(), panics)
}

fn set32(b: &mut [u8], o: usize, v: u32) {
    if o + 4 <= b.len() {
        b[o..o + 4].copy_from_slice(&v.to_le_bytes());
    }
}
fn set16(b: &mut [u8], o: usize, v: u16) {
    if o + 2 <= b.len() {
        b[o..o + 2].copy_from_slice(&v.to_le_bytes());
    }
}
fn get32(b: &[u8], o: usize) -> u32 {
    if o + 4 <= b.len() { u32::from_le_bytes([b[o], b[o + 1], b[o + 2], b[o + 3]]) } else { 0 }
}

/// materialises base image + faults
pub fn corrupted(base: &J, faults: &[J]) -> Result<Vec<u8>, String> {
    let mut img = base.clone();
    let long = img["longrefs"].as_bool().unwrap_or(false);
    let pool_len = img["pool"].as_array().map(|a| a.len()).unwrap_or(0) as u64;
    for f in faults.iter().filter(|f| f["site"] == "cell") {
        if let Some(tabs) = img["tables"].as_array_mut() {
            for t in tabs.iter_mut().filter(|t| t["name"] == f["table"]) {
                let r = f["row"].as_u64().unwrap_or(1) as usize - 1;
                let c = f["col"].as_u64().unwrap_or(1) as usize - 1;
                let cell = match f["kind"].as_str().unwrap_or("") {
                    "null" => json!({"n": 0}),
                    "dangling" => json!({"r": pool_len + 1}),
                    "huge" => json!({"r": if long { 0xFF_FFFFu64 } else { 0xFFFF }}),
                    "first" => json!({"r": 1}),
                    "one" => json!({"raw": 1}),
                    "max" => json!({"raw": 0xFFFF_FFFFu64}),
                    _ => json!({"raw": 0x8000_0000u64}),
                };
                if t["cells"][r][c].is_object() {
                    t["cells"][r][c] = cell;
                }
            }
        }
    }
    // the template property ("arch;languages") as raw text
    for f in faults.iter().filter(|f| f["site"] == "template") {
        let raw = match f["kind"].as_str().unwrap_or("") {
            "nosemi" => "x64,1033",
            "empty" => "",
            "onlysemi" => ";",
            "twosemi" => "x64;1033;0",
            "badlang" => "x64;abc,-1,99999999999",
            _ => "Intel;1033,,1031,",
        };
        img["summary"]["template_raw"] = json!(raw);
    }
    let (mut clsid, mut streams) = image_streams(&img)?;
    let name_of = |n: &J| -> String {
        match n[0].as_i64() {
            Some(-1) => pack_name("_StringPool", true),
            Some(-2) => pack_name("_StringData", true),
            Some(-3) => "\u{5}SummaryInformation".to_string(),
            _ => pack_name(&from_cps(n), true),
        }
    };
    for f in faults {
        let kind = f["kind"].as_str().unwrap_or("");
        match f["site"].as_str().unwrap_or("") {
            "stream" => {
                let nm = name_of(&f["name"]);
                if kind == "remove" {
                    streams.retain(|s| s.0 != nm);
                } else if let Some(s) = streams.iter_mut().find(|s| s.0 == nm) {
                    match kind {
                        "trunc1" => {
                            s.1.pop();
                        }
                        "half" => {
                            let n = s.1.len() / 2;
                            s.1.truncate(n);
                        }
                        "extend" => s.1.push(0x41),
                        _ => s.1.clear(),
                    }
                }
            }
            "poolhdr" => {
                if let Some(s) = streams.iter_mut().find(|s| s.0 == pack_name("_StringPool", true)) {
                    let h = get32(&s.1, 0);
                    let v = match kind {
                        "cp1" => (h & 0x8000_0000) | 1,
                        "cp437" => (h & 0x8000_0000) | 437,
                        "longbit" => h ^ 0x8000_0000,
                        // another KNOWN page: the bytes of the strings were written for a different one
                        "cpascii" => (h & 0x8000_0000) | 20127,
                        "cp932" => (h & 0x8000_0000) | 932,
                        "cputf8" => (h & 0x8000_0000) | 65001,
                        _ => 0x7FFF_FFFF,
                    };
                    set32(&mut s.1, 0, v);
                }
            }
            "pooltail" => {
                if let Some(s) = streams.iter_mut().find(|s| s.0 == pack_name("_StringPool", true)) {
                    s.1.extend(std::iter::repeat(0u8).take(4 * 70000));
                }
            }
            "poolentry" => {
                if let Some(s) = streams.iter_mut().find(|s| s.0 == pack_name("_StringPool", true)) {
                    let o = 4 + 4 * (f["k"].as_u64().unwrap_or(1) as usize - 1);
                    if o + 4 <= s.1.len() {
                        let len = u16::from_le_bytes([s.1[o], s.1[o + 1]]);
                        let rc = u16::from_le_bytes([s.1[o + 2], s.1[o + 3]]);
                        match kind {
                            "len+" => set16(&mut s.1, o, len.wrapping_add(1000)),
                            "lenmax" => set16(&mut s.1, o, 0xFFFF),
                            "rc0" => set16(&mut s.1, o + 2, 0),
                            "rc+" => set16(&mut s.1, o + 2, rc.wrapping_add(1)),
                            "rcmax" => set16(&mut s.1, o + 2, 0xFFFF),
                            "long2g" | "longmax" => {
                                // entry k becomes the escape (0, high half), entry k+1 keeps its count and gets the low half
                                if o + 8 <= s.1.len() {
                                    set16(&mut s.1, o, 0);
                                    set16(&mut s.1, o + 2, if kind == "longmax" { 0xFFFF } else { 0x7FFF });
                                    set16(&mut s.1, o + 4, 0xFFFF);
                                }
                            }
                            _ => set16(&mut s.1, o, 0),
                        }
                    }
                }
            }
            "ps" => {
                if let Some(s) = streams.iter_mut().find(|s| s.0 == "\u{5}SummaryInformation") {
                    let b = &mut s.1;
                    let so = get32(b, 44) as usize;
                    let count = get32(b, so + 4) as usize;
                    let first_off = so + get32(b, so + 12) as usize;
                    // first string property
                    let mut str_at = 0usize;
                    for i in 0..count {
                        let po = so + get32(b, so + 12 + 8 * i) as usize;
                        if get32(b, po) == 30 {
                            str_at = po;
                            break;
                        }
                    }
                    let last_off = so + get32(b, so + 12 + 8 * count.saturating_sub(1)) as usize;
                    let val = |orig: u32| -> u32 {
                        match kind {
                            "ascii" => 20127,
                            "sjis" => 932,
                            "latin1" => 1252,
                            "zero" => 0,
                            "one" => 1,
                            "huge" => 0xFFFF_FFF0,
                            _ => orig.wrapping_add(1),
                        }
                    };
                    match f["field"].as_str().unwrap_or("") {
                        "bom" => { let v = val(0xFFFE) as u16; set16(b, 0, v) }
                        "version" => { let v = val(0) as u16; set16(b, 2, if kind == "one" { 2 } else { v }) }
                        "os" => { let v = val(2) as u16; set16(b, 6, if kind == "one" { 7 } else { v }) }
                        "reserved" => { let v = val(get32(b, 24)); set32(b, 24, v) }
                        "fmtid" => { let v = val(get32(b, 28)); set32(b, 28, v) }
                        "secoff" => { let v = val(get32(b, 44)); set32(b, 44, v) }
                        "size" => { let v = val(get32(b, so)); set32(b, so, v) }
                        "count" => { let v = val(get32(b, so + 4)); set32(b, so + 4, v) }
                        "propoff" => { let v = val(get32(b, so + 20)); set32(b, so + 20, v) }
                        "type" => { let v = val(get32(b, last_off)); set32(b, last_off, if kind == "one" { 99 } else { v }) }
                        "strlen" => { if str_at > 0 { let v = val(get32(b, str_at + 4)); set32(b, str_at + 4, v) } }
                        "terminator" => { if str_at > 0 { let n = get32(b, str_at + 4) as usize; if str_at + 8 + n <= b.len() && n > 0 { b[str_at + 8 + n - 1] = 0x41; } } }
                        "cptype" => { let v = val(get32(b, first_off)); set32(b, first_off, if kind == "one" { 3 } else { v }) }
                        _ => { let v = val(get32(b, first_off + 4)); set32(b, first_off + 4, v) }
                    }
                }
            }
            "clsid" => {
                clsid = if kind == "zero" { "00000000-0000-0000-0000-000000000000".into() } else { "000c1085-0000-0000-c000-000000000046".into() };
            }
            _ => {}
        }
    }
    build_cfb(&clsid, &streams)
}

pub fn main(args: &Args) -> i32 {
    install_hook();
    let seed = args.num("seed", 1);
    let nmut = args.num("mutations", 2000);
    let nrand = args.num("random", 2000);
    let progress = args.get("progress").map(|s| s.to_string());
    let skip = args.num("skip", 0);
    let input: Box<dyn BufRead> = match args.get("cases") {
        Some(p) => Box::new(std::io::BufReader::new(std::fs::File::open(p).expect("cases"))),
        None => Box::new(std::io::BufReader::new(std::io::stdin())),
    };
    let mut bases: BTreeMap<String, J> = BTreeMap::new();
    let mut cases: Vec<J> = Vec::new();
    for line in input.lines().map_while(Result::ok) {
        if let Some(b) = parse_tagged(&line, "BASE") {
            bases.insert(b["id"].to_string(), b["img"].clone());
        } else if let Some(c) = parse_tagged(&line, "CASE") {
            cases.push(c);
        }
    }
    // byte-level mutations of the valid base files and purely random bytes, as further cases
    let mut rng = Rng::new(seed);
    let base_bytes: Vec<Vec<u8>> = bases.values().filter_map(|b| corrupted(b, &[]).ok()).collect();
    let mut viols: Vec<J> = Vec::new();
    let mut by_site: BTreeMap<String, u64> = BTreeMap::new();
    let mut opens: BTreeMap<String, u64> = BTreeMap::new();
    let total = cases.len() as u64 + nmut + nrand;
    let mut note = |idx: u64| {
        if let Some(p) = &progress {
            let _ = std::fs::write(p, idx.to_string());
        }
    };
    let mut record = |desc: J, res: (String, Vec<(String, String)>), viols: &mut Vec<J>, by_site: &mut BTreeMap<String, u64>, opens: &mut BTreeMap<String, u64>| {
        *opens.entry(res.0.clone()).or_insert(0) += 1;
        for (op, loc) in res.1 {
            let key = format!("{} @ {}", op, loc.split(' ').next().unwrap_or("?"));
            let n = by_site.entry(key.clone()).or_insert(0);
            *n += 1;
            if *n <= 3 {
                viols.push(json!({"kind": "panic", "op": op, "what": format!("panic during {} at {}", op, loc), "case": desc}));
            }
        }
    };
    let mut idx = 0u64;
    for c in &cases {
        idx += 1;
        if idx <= skip { continue; }
        note(idx);
        let base = match bases.get(&c["base"].to_string()) {
            Some(b) => b,
            None => continue,
        };
        let faults = c["faults"].as_array().cloned().unwrap_or_default();
        match corrupted(base, &faults) {
            Ok(bytes) => {
                if let Some(d) = args.get("dump-dir") {
                    let _ = std::fs::create_dir_all(d);
                    let _ = std::fs::write(format!("{}/{:06}.msi", d, idx), &bytes);
                }
                let r = battery(bytes);
                record(json!({"base": c["base"], "faults": c["faults"]}), r, &mut viols, &mut by_site, &mut opens);
            }
            Err(_) => {}
        }
    }
    for k in 0..nmut {
        idx += 1;
        if idx <= skip { let _ = rng.next(); continue; }
        note(idx);
        if base_bytes.is_empty() { break; }
        let mut b = rng.pick(&base_bytes).clone();
        let how = rng.below(4);
        let nflips = 1 + rng.below(4);
        let mut desc = Vec::new();
        match how {
            0 | 1 => {
                for _ in 0..nflips {
                    let p = rng.below(b.len() as u64) as usize;
                    let bit = rng.below(8);
                    b[p] ^= 1 << bit;
                    desc.push(json!([p, bit]));
                }
            }
            2 => {
                let n = rng.below(b.len() as u64) as usize;
                b.truncate(n);
                desc.push(json!(["truncate", n]));
            }
            _ => {
                let other = rng.pick(&base_bytes).clone();
                let p = (rng.below(b.len() as u64 / 512) * 512) as usize;
                let n = (512 * (1 + rng.below(4))) as usize;
                for i in 0..n {
                    if p + i < b.len() && p + i < other.len() {
                        b[p + i] = other[p + i];
                    }
                }
                desc.push(json!(["splice", p, n]));
            }
        }
        let r = battery(b);
        record(json!({"mutation": k, "seed": seed, "how": desc}), r, &mut viols, &mut by_site, &mut opens);
    }
    for k in 0..nrand {
        idx += 1;
        if idx <= skip { let _ = rng.next(); continue; }
        note(idx);
        let n = rng.below(4096) as usize;
        let mut b: Vec<u8> = (0..n).map(|_| rng.next() as u8).collect();
        if rng.chance(1, 2) && n >= 8 {
            b[..8].copy_from_slice(&[0xD0, 0xCF, 0x11, 0xE0, 0xA1, 0xB1, 0x1A, 0xE1]);
        }
        let r = battery(b);
        record(json!({"random": k, "seed": seed, "len": n}), r, &mut viols, &mut by_site, &mut opens);
    }
    note(total + 1);
    println!("CORRUPT {}", json!({"structured_cases": cases.len(), "mutations": nmut, "random": nrand, "open_outcomes": opens, "panic_sites": by_site, "violations": viols.len()}));
    if let Some(p) = args.get("viol") {
        let mut f = std::fs::File::create(p).expect("viol");
        for v in &viols {
            let _ = writeln!(f, "{}", v);
        }
    }
    if viols.is_empty() { 0 } else { 1 }
}
