//! C15: fault enumeration.  For representative scripts, every index of the write / read / seek
//! calls issued to the medium fails once (transient) or from then on (persistent).  Every call
//! must return Ok or Err (never panic); whenever every call returned Ok, flush / into_inner
//! included, the bytes on the medium must hold exactly the state those calls describe.
//! Runs that returned Ok throughout although a fault fired are recorded as full traces for TLC.
use crate::j::cps;
use crate::media::{Fault, Kind};
use crate::session::Session;
use crate::walk::{check_bytes, log_state};
use crate::Args;
use serde_json::{json, Value as J};
use std::io::Write;
use std::sync::{Arc, Mutex};

fn col(name: &str, ty: &str, width: u64, nullable: bool, key: bool) -> J {
    json!({"name": cps(name), "type": ty, "width": width, "nullable": nullable, "key": key, "loc": false, "range": [], "fk": [], "cat": [], "enum": []})
}
fn ev(op: &str, args: J) -> J {
    json!({"op": op, "args": args})
}
fn s(x: &str) -> J {
    json!({"s": cps(x)})
}
fn tru() -> J {
    json!({"lit": {"i": 1}})
}

pub fn scripts() -> Vec<(&'static str, Vec<J>)> {
    let t = cps("T");
    let create = ev("Create", json!({"ptype": "Installer"}));
    let ctab = ev("CreateTable", json!({"table": t, "cols": [col("K", "i16", 0, false, true), col("V", "s", 32, true, false)]}));
    let ins = ev("Insert", json!({"table": t, "rows": [[{"i": 1}, s("one")], [{"i": 2}, s("two")]]}));
    let upd = ev("Update", json!({"table": t, "sets": [[cps("V"), s("uno")]], "cond": {"bin": "eq", "l": {"col": cps("K")}, "r": {"lit": {"i": 1}}}}));
    let del = ev("Delete", json!({"table": t, "cond": {"bin": "eq", "l": {"col": cps("K")}, "r": {"lit": {"i": 2}}}}));
    let flush = ev("Flush", json!({}));
    let into = ev("IntoInner", json!({}));
    // a table stream larger than any buffer the library may put in front of the container (12 000 bytes)
    let bulk_rows: Vec<J> = (0..1500).map(|k| json!([{"i": k}, {"i": 7 * k}])).collect();
    let btab = ev("CreateTable", json!({"table": cps("B"), "cols": [col("K", "i32", 0, false, true), col("N", "i32", 0, true, false)]}));
    let bulk = ev("Insert", json!({"table": cps("B"), "rows": bulk_rows}));
    vec![
        ("bulk", vec![create.clone(), btab, bulk, flush.clone(), into.clone()]),
        ("create", vec![create.clone(), flush.clone()]),
        ("insert", vec![create.clone(), ctab.clone(), ins.clone(), flush.clone()]),
        ("update", vec![create.clone(), ctab.clone(), ins.clone(), flush.clone(), upd.clone(), flush.clone()]),
        ("delete", vec![create.clone(), ctab.clone(), ins.clone(), del.clone(), into.clone()]),
        ("droptable", vec![create.clone(), ctab.clone(), ins.clone(), ev("DropTable", json!({"table": t})), flush.clone()]),
        ("stream-small", vec![create.clone(), ev("WriteStream", json!({"name": cps("s"), "data": "g100_5"})), flush.clone()]),
        ("stream-large", vec![create.clone(), ev("WriteStream", json!({"name": cps("big"), "data": "g9000_6"})), into.clone()]),
        ("stream-seek", vec![create.clone(), ev("WriteStreamSeek", json!({"name": cps("s"), "data": "g100_5"})), flush.clone(), ev("WriteStreamSeek", json!({"name": cps("big"), "data": "g9000_6"})), into.clone()]),
        ("summary", vec![create.clone(), ev("SetSummary", json!({"field": "author", "value": s("Bob")})), flush.clone()]),
        ("summary+pool", vec![create.clone(), flush.clone(), ev("SetSummary", json!({"field": "author", "value": s("Bob")})), ctab.clone(), ins.clone(), flush.clone()]),
        ("codepage", vec![create.clone(), ctab.clone(), ins.clone(), ev("SetCodepage", json!({"cp": 1252})), into.clone()]),
        ("reopen-modify", vec![create.clone(), ctab.clone(), ins.clone(), into.clone(), ev("Reopen", json!({})), ev("Insert", json!({"table": t, "rows": [[{"i": 3}, s("three")]]})), ev("Delete", json!({"table": t, "cond": tru()})), ins.clone(), flush.clone()]),
        // a signed package (the signature is added to the closed file by a signing tool), opened and un-signed
        ("unsign", vec![create.clone(), ctab.clone(), ins.clone(), into.clone(), ev("AddSignature", json!({})), ev("Reopen", json!({})), ev("RemoveSignature", json!({})), flush.clone()]),
        // stream-level calls only since the last save: they write through the container, and the save still has to flush the medium
        ("streams-only", vec![create.clone(), flush.clone(), ev("WriteStream", json!({"name": cps("s"), "data": "g100_5"})), flush.clone(), ev("WriteStream", json!({"name": cps("t"), "data": "b0102"})), ev("RemoveStream", json!({"name": cps("s")})), flush.clone()]),
        ("mixed", vec![create.clone(), ctab.clone(), ins.clone(), upd.clone(), ev("WriteStream", json!({"name": cps("s"), "data": "b0102"})), ev("SetSummary", json!({"field": "comments", "value": s("c")})), del.clone(), flush.clone(), ev("RemoveStream", json!({"name": cps("s")})), into.clone()]),
    ]
}

pub fn main(args: &Args) -> i32 {
    let stride = args.num("stride", 1).max(1);
    let only: Option<String> = args.get("script").map(|s| s.to_string());
    let threads = args.num("threads", 12) as usize;
    let kinds: Vec<Kind> = if args.get("writes-only").is_some() { vec![Kind::Write] } else { vec![Kind::Write, Kind::Read, Kind::Seek] };
    let trace: Arc<Mutex<Vec<String>>> = Arc::new(Mutex::new(Vec::new()));
    let viols: Arc<Mutex<Vec<J>>> = Arc::new(Mutex::new(Vec::new()));
    let mut summary = Vec::new();
    for (name, script) in scripts() {
        if let Some(o) = &only {
            if o != name {
                continue;
            }
        }
        // the medium is created by the first event, so faults are armed on a session-level medium:
        // Session::exec("Create") makes a fresh Medium; we arm the fault right after constructing it
        // by running Create un-faulted only when the script asks (from = 1) -- here from = 0 arms
        // nothing before Create, so we pre-create the medium by arming inside exec via env.
        let base = run_with(&script, None);
        let base_state = match base.1.as_ref() {
            Some(s) => s.clone(),
            None => {
                eprintln!("script {} does not run cleanly without faults: {:?}", name, base.0);
                return 2;
            }
        };
        let counts = base.2;
        if !base.3 {
            viols.lock().unwrap().push(json!({"kind": "fault-lost", "op": name, "what": "without any fault every call returned Ok, but what the medium holds durably (its bytes at its last flush()) is not what it holds now: the last save did not flush the medium", "case": {"script": name, "fault": {"kind": "none"}}}));
        }
        // the fault-free run of every script is validated by TLC as a whole
        trace.lock().unwrap().extend(traced_rerun(&script, Fault { kind: Kind::Write, k: u64::MAX / 2, persistent: false, ekind: 0 }));
        let mut jobs: Vec<Fault> = Vec::new();
        for &kind in &kinds {
            let n = match kind { Kind::Write => counts.0, Kind::Read => counts.1, Kind::Seek => counts.2 };
            let mut k = 0;
            while k < n {
                // the kind of error cycles with the call index; NotFound (a kind that callers match on) at every index too
                jobs.push(Fault { kind, k, persistent: false, ekind: (k % 10) as u8 });
                jobs.push(Fault { kind, k, persistent: true, ekind: ((k + 3) % 9) as u8 });
                if k % 10 != 1 {
                    jobs.push(Fault { kind, k, persistent: false, ekind: 1 });
                }
                if (k + 3) % 9 != 1 {
                    jobs.push(Fault { kind, k, persistent: true, ekind: 1 });
                }
                // a kind that invites a retry (TimedOut / WouldBlock, alternating) at every index as well
                jobs.push(Fault { kind, k, persistent: false, ekind: 7 + (k % 2) as u8 });
                k += stride;
            }
        }
        let total = jobs.len();
        let jobs = Arc::new(Mutex::new(jobs));
        let stats = Arc::new(Mutex::new((0u64, 0u64, 0u64, 0u64))); // reported, all-ok-with-fault-fired, all-ok-no-fire, panics
        let mut hs = Vec::new();
        for _ in 0..threads {
            let (jobs, stats, viols, trace, script, base_state) = (jobs.clone(), stats.clone(), viols.clone(), trace.clone(), script.clone(), base_state.clone());
            hs.push(std::thread::spawn(move || loop {
                let f = match jobs.lock().unwrap().pop() {
                    Some(f) => f,
                    None => break,
                };
                let (res, final_state_ok, _c, fired, tr) = run_with_fault(&script, f, &base_state);
                let mut st = stats.lock().unwrap();
                let fdesc = json!({"kind": format!("{:?}", f.kind), "k": f.k, "mode": if f.persistent { "persistent" } else { "transient" }, "error": format!("{:?}", crate::media::EKINDS[f.ekind as usize % 10])});
                if res.iter().any(|r| r == "panic") {
                    st.3 += 1;
                    viols.lock().unwrap().push(json!({"kind": "fault-panic", "op": name, "what": format!("a call panicked under {} fault at {:?} call {}", if f.persistent { "a persistent" } else { "a transient" }, f.kind, f.k), "case": {"script": name, "fault": fdesc, "results": res}}));
                } else if res.iter().all(|r| r == "Ok") && res.len() == script.len() {
                    if fired > 0 { st.1 += 1 } else { st.2 += 1 }
                    if let Err(e) = final_state_ok {
                        let mut vs = viols.lock().unwrap();
                        if vs.len() < 300 {
                            vs.push(json!({"kind": "fault-lost", "op": name, "what": format!("every call returned Ok under a {} {:?} fault ({:?}) at call {} but {}", if f.persistent { "persistent" } else { "transient" }, f.kind, crate::media::EKINDS[f.ekind as usize % 10], f.k, e), "case": {"script": name, "fault": fdesc}}));
                        }
                    }
                    if fired > 0 {
                        let mut t = trace.lock().unwrap();
                        if t.len() < 4000 {
                            t.extend(tr);
                        }
                    }
                } else {
                    st.0 += 1;
                }
            }));
        }
        for h in hs {
            let _ = h.join();
        }
        let st = stats.lock().unwrap();
        summary.push(json!({"script": name, "calls": {"write": counts.0, "read": counts.1, "seek": counts.2}, "runs": total, "error_reported": st.0, "ok_although_fault_fired": st.1, "ok_fault_not_reached": st.2, "panics": st.3}));
    }
    if let Some(p) = args.get("trace") {
        let mut f = std::io::BufWriter::new(std::fs::File::create(p).expect("trace"));
        for l in trace.lock().unwrap().iter() {
            let _ = writeln!(f, "{}", l);
        }
    }
    let vs = viols.lock().unwrap();
    if let Some(p) = args.get("viol") {
        let mut f = std::fs::File::create(p).expect("viol");
        for v in vs.iter() {
            let _ = writeln!(f, "{}", v);
        }
    }
    println!("FAULTS {}", json!({"scripts": summary, "violations": vs.len()}));
    if vs.is_empty() { 0 } else { 1 }
}

/// fault-free run: results, final projected state (after the last close: from the bytes), call counts
fn run_with(script: &[J], _f: Option<Fault>) -> (Vec<String>, Option<J>, (u64, u64, u64), bool) {
    let mut sess = Session::empty();
    let mut res = Vec::new();
    let mut counts = (0u64, 0u64, 0u64);
    for e in script {
        let before = sess.med.counters();
        let r = sess.exec(e);
        let after = sess.med.counters();
        if e["op"] == "Create" || e["op"] == "Reopen" {
            // a fresh medium: its counters start at zero
            counts.0 += after.writes;
            counts.1 += after.reads;
            counts.2 += after.seeks;
        } else if e["op"] != "AddSignature" {
            // (AddSignature is the signing tool at work on the closed file: a new medium, none of the library's calls)
            counts.0 += after.writes - before.writes;
            counts.1 += after.reads - before.reads;
            counts.2 += after.seeks - before.seeks;
        }
        let ok = r == "Ok";
        res.push(r);
        if !ok {
            return (res, None, counts, true);
        }
    }
    // (into_inner hands the medium back with every byte written to it; flushing it is then the caller's business)
    let durable_ok = script.last().map(|e| e["op"] != "Flush").unwrap_or(true) || sess.med.snap_durable() == sess.med.snap();
    // the state the calls describe = what the bytes hold after the fault-free run
    let mut s2 = Session::empty();
    s2.med = crate::media::Medium::new(sess.med.snap());
    let st = match msi::Package::open(s2.med.handle()) {
        Ok(p) => {
            s2.pkg = Some(p);
            s2.project().ok()
        }
        Err(_) => None,
    };
    (res, st, counts, durable_ok)
}

/// one faulty run: the k-th call of the given kind, counted over the WHOLE script, fails
fn run_with_fault(script: &[J], f: Fault, base_state: &J) -> (Vec<String>, Result<(), String>, (u64, u64, u64), u64, Vec<String>) {
    let mut sess = Session::empty();
    let mut res = Vec::new();
    let mut done = (0u64, 0u64, 0u64); // calls already issued on earlier media
    let mut fired = 0u64;
    let mut tr: Vec<String> = Vec::new();
    let mut states: Vec<(J, String, J)> = Vec::new();
    for e in script {
        // arm the fault relative to the calls already made
        let used = match f.kind { Kind::Write => done.0, Kind::Read => done.1, Kind::Seek => done.2 };
        let arm = |sess: &Session, extra: u64| {
            let already = used + extra;
            if f.k >= already {
                sess.med.set_fault(Some(Fault { kind: f.kind, k: f.k - already, persistent: f.persistent, ekind: f.ekind }));
            } else if f.persistent {
                sess.med.set_fault(Some(Fault { kind: f.kind, k: 0, persistent: true, ekind: f.ekind }));
            } else {
                sess.med.set_fault(None);
            }
        };
        let fresh = e["op"] == "Create" || e["op"] == "Reopen";
        let r = if fresh {
            // the medium is replaced inside exec: arm the new medium before the library touches it
            exec_fresh(&mut sess, e, &f, used)
        } else {
            // counters of the current medium continue; re-arm relative to them
            let c = sess.med.counters();
            let cur = match f.kind { Kind::Write => c.writes, Kind::Read => c.reads, Kind::Seek => c.seeks };
            let _ = arm;
            let base_used = used; // calls on previous media
            let target = f.k as i128 - base_used as i128;
            if target >= cur as i128 {
                sess.med.set_fault(Some(Fault { kind: f.kind, k: target as u64, persistent: f.persistent, ekind: f.ekind }));
            } else if f.persistent {
                sess.med.set_fault(Some(Fault { kind: f.kind, k: cur, persistent: true, ekind: f.ekind }));
            } else {
                sess.med.set_fault(None);
            }
            sess.exec(e)
        };
        fired += 0;
        let ok = r == "Ok";
        res.push(r.clone());
        states.push((e.clone(), r, J::Null));
        if e["op"] == "IntoInner" || e["op"] == "DropPkg" {
            let c = sess.med.counters();
            done.0 += c.writes;
            done.1 += c.reads;
            done.2 += c.seeks;
            fired += c.faults;
            sess.med.reset_counters();
        }
        if !ok {
            // the failure was reported; a caller may well try to save again or take the medium back: those calls
            // may fail too, but must not panic (the fault stays armed the way it was)
            if res.last().map(|r| r == "Err").unwrap_or(false) && sess.is_open() {
                for tail in [ev("Flush", json!({})), ev("Flush", json!({})), ev("IntoInner", json!({}))] {
                    let r2 = sess.exec(&tail);
                    let stop = r2 == "panic";
                    res.push(r2);
                    if stop {
                        break;
                    }
                }
            }
            fired += sess.med.counters().faults;
            return (res, Ok(()), done, fired, tr);
        }
    }
    fired += sess.med.counters().faults;
    sess.med.set_fault(None);
    // what counts is what the medium holds durably: the bytes at its last flush() (a save that reports success has flushed it)
    let verdict = check_bytes(&sess, base_state, script.last().map(|e| e["op"] == "Flush").unwrap_or(false)).map_err(|e| e.1);
    // a full trace of this run (re-executed with state logging) for TLC, when the fault fired but nothing reported it
    // (a run whose bytes are already known to be wrong is reported as such; its steps are not judged a second time)
    if fired > 0 && verdict.is_ok() {
        tr = traced_rerun(script, f);
    }
    (res, verdict, done, fired, tr)
}

fn exec_fresh(sess: &mut Session, e: &J, f: &Fault, used: u64) -> String {
    // Session::exec creates the new Medium itself; to arm it before the library touches it we
    // pass the fault through a thread-local that Session consults when it builds a medium.
    crate::session::NEXT_FAULT.with(|nf| {
        *nf.borrow_mut() = if f.k >= used {
            Some(Fault { kind: f.kind, k: f.k - used, persistent: f.persistent, ekind: f.ekind })
        } else if f.persistent {
            Some(Fault { kind: f.kind, k: 0, persistent: true, ekind: f.ekind })
        } else {
            None
        };
    });
    let r = sess.exec(e);
    crate::session::NEXT_FAULT.with(|nf| *nf.borrow_mut() = None);
    r
}

fn traced_rerun(script: &[J], f: Fault) -> Vec<String> {
    let mut sess = Session::empty();
    let mut out = Vec::new();
    let mut done = (0u64, 0u64, 0u64);
    for e in script {
        let used = match f.kind { Kind::Write => done.0, Kind::Read => done.1, Kind::Seek => done.2 };
        let fresh = e["op"] == "Create" || e["op"] == "Reopen";
        let r = if fresh {
            exec_fresh(&mut sess, e, &f, used)
        } else {
            let c = sess.med.counters();
            let cur = match f.kind { Kind::Write => c.writes, Kind::Read => c.reads, Kind::Seek => c.seeks };
            let target = f.k as i128 - used as i128;
            if target >= cur as i128 {
                sess.med.set_fault(Some(Fault { kind: f.kind, k: target as u64, persistent: f.persistent, ekind: f.ekind }));
            } else if f.persistent {
                sess.med.set_fault(Some(Fault { kind: f.kind, k: cur, persistent: true, ekind: f.ekind }));
            } else {
                sess.med.set_fault(None);
            }
            sess.exec(e)
        };
        // observe without faults
        let saved = sess.med.inner.borrow().fault;
        sess.med.set_fault(None);
        let c0 = sess.med.counters();
        let st = log_state(&mut sess);
        // observation must not disturb the call counting of the script
        {
            let mut g = sess.med.inner.borrow_mut();
            g.c = c0;
            g.fault = saved;
        }
        let mut m = serde_json::Map::new();
        // (for the specification a stream written with a position query in between is a stream written)
        m.insert("op".into(), if e["op"] == "WriteStreamSeek" { json!("WriteStream") } else { e["op"].clone() });
        m.insert("args".into(), if e["op"] == "Flush" || e["op"] == "IntoInner" || e["op"] == "Reopen" { json!({"x": 0}) } else { e["args"].clone() });
        m.insert("res".into(), json!(r));
        m.insert("st".into(), st);
        out.push(J::Object(m).to_string());
        if e["op"] == "IntoInner" {
            let c = sess.med.counters();
            done.0 += c.writes;
            done.1 += c.reads;
            done.2 += c.seeks;
            sess.med.reset_counters();
        }
        if r != "Ok" {
            break;
        }
    }
    out
}
