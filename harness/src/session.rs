//! A session: a real `Package` over a shared medium, driven by JSON events and projected to the
//! abstract state of the specification through the PUBLIC API (plus the `msi_verif` hook for the
//! in-memory pool).
use crate::codec;
use crate::j::{self, cps, from_cps};
use crate::media::Medium;
use msi::{CodePage, Delete, Insert, Language, Package, PackageType, Select, Update, Value};
use serde_json::{json, Map, Value as J};
use std::io::{Read, Write};
use std::panic::{catch_unwind, AssertUnwindSafe};
use std::time::{Duration, SystemTime, UNIX_EPOCH};

thread_local! {
    /// fault to arm on the next medium that a session creates (Create / Reopen), before the
    /// library issues its first call on it (used by the fault-enumeration driver)
    pub static NEXT_FAULT: std::cell::RefCell<Option<crate::media::Fault>> = std::cell::RefCell::new(None);
}
fn new_medium(bytes: Vec<u8>) -> Medium {
    let m = Medium::new(bytes);
    NEXT_FAULT.with(|nf| {
        if let Some(f) = *nf.borrow() {
            m.set_fault(Some(f));
        }
    });
    m
}

pub struct Session {
    pub pkg: Option<Package<Medium>>,
    pub med: Medium,
    pub last_len_ok: bool,
    pub last_error: String,
}

pub fn ptype_of(s: &str) -> PackageType {
    match s {
        "Patch" => PackageType::Patch,
        "Transform" => PackageType::Transform,
        _ => PackageType::Installer,
    }
}
pub fn ptype_str(p: PackageType) -> &'static str {
    match p {
        PackageType::Installer => "Installer",
        PackageType::Patch => "Patch",
        PackageType::Transform => "Transform",
    }
}

/// deterministic contents for a stream descriptor "b<hex>" or "g<len>_<seed>"
pub fn stream_bytes(desc: &str) -> Vec<u8> {
    if let Some(hex) = desc.strip_prefix('b') {
        (0..hex.len() / 2).map(|i| u8::from_str_radix(&hex[2 * i..2 * i + 2], 16).unwrap_or(0)).collect()
    } else if let Some(rest) = desc.strip_prefix('g') {
        let mut it = rest.split('_');
        let len: usize = it.next().unwrap_or("0").parse().unwrap_or(0);
        let seed: u32 = it.next().unwrap_or("0").parse().unwrap_or(0);
        gen_bytes(len, seed)
    } else {
        desc.as_bytes().to_vec()
    }
}
pub fn gen_bytes(len: usize, seed: u32) -> Vec<u8> {
    let mut v = Vec::with_capacity(len);
    v.extend_from_slice(&seed.to_le_bytes());
    let mut x = seed as u64 ^ 0x9E37_79B9_7F4A_7C15;
    while v.len() < len {
        x ^= x << 13;
        x ^= x >> 7;
        x ^= x << 17;
        v.push((x >> 24) as u8);
    }
    v.truncate(len);
    v
}
pub fn stream_desc(b: &[u8]) -> String {
    if b.len() <= 8 {
        return format!("b{}", b.iter().map(|x| format!("{:02x}", x)).collect::<String>());
    }
    let seed = u32::from_le_bytes([b[0], b[1], b[2], b[3]]);
    if gen_bytes(b.len(), seed) == b {
        format!("g{}_{}", b.len(), seed)
    } else {
        format!("h{}_{}", b.len(), codec::fnv(b))
    }
}

fn ticks_1601(t: SystemTime) -> String {
    // 100 ns ticks since 1601-01-01, as a decimal string (opaque to the package model)
    const EPOCH_DELTA: i128 = 11_644_473_600;
    let ns: i128 = match t.duration_since(UNIX_EPOCH) {
        Ok(d) => d.as_nanos() as i128,
        Err(e) => -(e.duration().as_nanos() as i128),
    };
    let ticks = (ns + EPOCH_DELTA * 1_000_000_000).div_euclid(100);
    ticks.to_string()
}
fn time_of_ticks(s: &str) -> SystemTime {
    let ticks: i128 = s.parse().unwrap_or(0);
    let ns = ticks * 100 - 11_644_473_600i128 * 1_000_000_000;
    if ns >= 0 {
        UNIX_EPOCH + Duration::new((ns / 1_000_000_000) as u64, (ns % 1_000_000_000) as u32)
    } else {
        let n = -ns;
        UNIX_EPOCH - Duration::new((n / 1_000_000_000) as u64, (n % 1_000_000_000) as u32)
    }
}

fn opt_s(o: Option<&str>) -> J {
    match o {
        Some(s) => json!({"s": cps(s)}),
        None => json!({"absent":0}),
    }
}

pub fn summary_json<F>(p: &Package<F>) -> J {
    let s = p.summary_info();
    let langs = s.languages();
    json!({
        "arch": opt_s(s.arch()),
        "author": opt_s(s.author()),
        "codepage": {"i": s.codepage().id()},
        "comments": opt_s(s.comments()),
        "creating_application": opt_s(s.creating_application()),
        "creation_time": match s.creation_time() { Some(t) => json!({"t": ticks_1601(t)}), None => json!({"absent":0}) },
        "languages": if langs.is_empty() { json!({"absent":0}) } else { json!({"l": langs.iter().map(|l| l.code()).collect::<Vec<_>>()}) },
        "subject": opt_s(s.subject()),
        "title": opt_s(s.title()),
        "uuid": match s.uuid() { Some(u) => json!({"s": cps(&u.hyphenated().to_string())}), None => json!({"absent":0}) },
        "word_count": match s.word_count() { Some(n) => json!({"i": n}), None => json!({"absent":0}) },
    })
}

impl Session {
    pub fn empty() -> Session {
        Session { pkg: None, med: Medium::new(Vec::new()), last_len_ok: true, last_error: String::new() }
    }

    /// Executes one event; returns "Ok" | "Err" | "panic".
    pub fn exec(&mut self, ev: &J) -> String {
        let op = ev["op"].as_str().unwrap_or("").to_string();
        let a = ev["args"].clone();
        let r = catch_unwind(AssertUnwindSafe(|| self.exec_inner(&op, &a)));
        match r {
            Ok(Ok(())) => "Ok".into(),
            Ok(Err(e)) => {
                self.last_error = e.to_string();
                "Err".into()
            }
            Err(_) => "panic".into(),
        }
    }

    fn p(&mut self) -> std::io::Result<&mut Package<Medium>> {
        self.pkg.as_mut().ok_or_else(|| std::io::Error::new(std::io::ErrorKind::Other, "no open package"))
    }

    fn exec_inner(&mut self, op: &str, a: &J) -> std::io::Result<()> {
        match op {
            "Create" => {
                self.pkg = None;
                self.med = new_medium(Vec::new());
                let p = Package::create(ptype_of(a["ptype"].as_str().unwrap_or("Installer")), self.med.handle())?;
                self.pkg = Some(p);
                Ok(())
            }
            "OpenImage" => {
                // an independently encoded database (C02)
                let bytes = crate::encode::encode_image(a).map_err(|e| std::io::Error::new(std::io::ErrorKind::Other, e))?;
                self.pkg = None;
                self.med = new_medium(bytes);
                self.pkg = Some(Package::open(self.med.handle())?);
                Ok(())
            }
            "CreateTable" => {
                let cols = a["cols"].as_array().cloned().unwrap_or_default().iter().map(j::to_col).collect();
                self.p()?.create_table(from_cps(&a["table"]), cols)
            }
            "DropTable" => {
                let t = from_cps(&a["table"]);
                self.p()?.drop_table(&t)
            }
            "Insert" => {
                let rows: Vec<Vec<Value>> = a["rows"]
                    .as_array()
                    .cloned()
                    .unwrap_or_default()
                    .iter()
                    .map(|r| r.as_array().cloned().unwrap_or_default().iter().map(j::to_val).collect())
                    .collect();
                self.p()?.insert_rows(Insert::into(from_cps(&a["table"])).rows(rows))
            }
            "Update" => {
                let mut q = Update::table(from_cps(&a["table"]));
                for sv in a["sets"].as_array().cloned().unwrap_or_default() {
                    q = q.set(from_cps(&sv[0]), j::to_val(&sv[1]));
                }
                if !j::is_true_lit(&a["cond"]) {
                    q = q.with(j::to_expr(&a["cond"]));
                }
                self.p()?.update_rows(q)
            }
            "Delete" => {
                let mut q = Delete::from(from_cps(&a["table"]));
                if !j::is_true_lit(&a["cond"]) {
                    q = q.with(j::to_expr(&a["cond"]));
                }
                self.p()?.delete_rows(q)
            }
            "SetCodepage" => {
                let cp = CodePage::from_id(a["cp"].as_i64().unwrap_or(0) as i32)
                    .ok_or_else(|| std::io::Error::new(std::io::ErrorKind::InvalidInput, "unknown code page"))?;
                self.p()?.set_database_codepage(cp);
                Ok(())
            }
            "SetSummary" => {
                let f = a["field"].as_str().unwrap_or("").to_string();
                let v = a["value"].clone();
                let s = self.p()?.summary_info_mut();
                let absent = v.get("absent").is_some();
                let st = || from_cps(&v["s"]);
                match f.as_str() {
                    "arch" => if absent { s.clear_arch() } else { s.set_arch(st()) },
                    "author" => if absent { s.clear_author() } else { s.set_author(st()) },
                    "comments" => if absent { s.clear_comments() } else { s.set_comments(st()) },
                    "creating_application" => if absent { s.clear_creating_application() } else { s.set_creating_application(st()) },
                    "subject" => if absent { s.clear_subject() } else { s.set_subject(st()) },
                    "title" => if absent { s.clear_title() } else { s.set_title(st()) },
                    "uuid" => if absent { s.clear_uuid() } else { s.set_uuid(uuid::Uuid::parse_str(&st()).unwrap_or_default()) },
                    "word_count" => if absent { s.clear_word_count() } else { s.set_word_count(v["i"].as_i64().unwrap_or(0) as i32) },
                    "creation_time" => if absent { s.clear_creation_time() } else { s.set_creation_time(time_of_ticks(v["t"].as_str().unwrap_or("0"))) },
                    "languages" => if absent { s.clear_languages() } else {
                        let ls: Vec<Language> = v["l"].as_array().cloned().unwrap_or_default().iter().map(|c| Language::from_code(c.as_u64().unwrap_or(0) as u16)).collect();
                        s.set_languages(&ls)
                    },
                    "codepage" => {
                        if let Some(cp) = CodePage::from_id(v["i"].as_i64().unwrap_or(0) as i32) { s.set_codepage(cp) }
                    }
                    _ => {}
                }
                Ok(())
            }
            "WriteStream" => {
                let n = from_cps(&a["name"]);
                let data = stream_bytes(a["data"].as_str().unwrap_or(""));
                let mut w = self.p()?.write_stream(&n)?;
                w.write_all(&data)?;
                w.flush()?;
                Ok(())
            }
            "WriteStreamSeek" => {
                // the same, asking for the position (a seek inside the buffered data) between the write and the flush
                let n = from_cps(&a["name"]);
                let data = stream_bytes(a["data"].as_str().unwrap_or(""));
                let mut w = self.p()?.write_stream(&n)?;
                w.write_all(&data)?;
                let _ = std::io::Seek::stream_position(&mut w)?;
                w.flush()?;
                Ok(())
            }
            "RemoveStream" => {
                let n = from_cps(&a["name"]);
                self.p()?.remove_stream(&n)
            }
            "RemoveSignature" => self.p()?.remove_digital_signature(),
            "ReadStream" => {
                let n = from_cps(&a["name"]);
                let mut rd = self.p()?.read_stream(&n)?;
                let mut b = Vec::new();
                rd.read_to_end(&mut b)?;
                Ok(())
            }
            "AddSignature" => {
                // a signing tool adds the stream to the closed file, with the container library only
                let bytes = self.med.snap();
                let mut comp = cfb::CompoundFile::open(std::io::Cursor::new(bytes))?;
                {
                    let mut st = comp.create_stream("\u{5}DigitalSignature")?;
                    st.write_all(b"sig")?;
                    st.flush()?;
                }
                comp.flush()?;
                self.med = Medium::new(comp.into_inner().into_inner());
                Ok(())
            }
            "Flush" => self.p()?.flush(),
            "IntoInner" => {
                let p = self.pkg.take().ok_or_else(|| std::io::Error::new(std::io::ErrorKind::Other, "no package"))?;
                p.into_inner().map(|_| ())
            }
            "DropPkg" => {
                let p = self.pkg.take();
                drop(p);
                Ok(())
            }
            "Reopen" => {
                let bytes = self.med.snap();
                self.pkg = None;
                self.med = new_medium(bytes);
                self.pkg = Some(Package::open(self.med.handle())?);
                Ok(())
            }
            "Crash" => {
                // the machine dies: memory is lost without running any destructor, and of the medium only
                // what it held at its last flush() remains
                let bytes = self.med.snap_durable();
                if let Some(p) = self.pkg.take() {
                    std::mem::forget(p);
                }
                self.med = Medium::new(bytes);
                self.pkg = Some(Package::open(self.med.handle())?);
                Ok(())
            }
            _ => Err(std::io::Error::new(std::io::ErrorKind::Other, format!("unknown op {}", op))),
        }
    }

    pub fn is_open(&self) -> bool {
        self.pkg.is_some()
    }

    /// The abstract state through the public API: {ptype, cp, summary, streams, tables}.
    /// Returns Err(message) when a read operation fails or panics.
    pub fn project(&mut self) -> Result<J, String> {
        let r = catch_unwind(AssertUnwindSafe(|| self.project_inner()));
        match r {
            Ok(x) => x,
            Err(_) => Err("panic while projecting".into()),
        }
    }

    fn project_inner(&mut self) -> Result<J, String> {
        let mut len_ok = true;
        let p = self.pkg.as_mut().ok_or("no open package")?;
        let names: Vec<String> = p.tables().map(|t| t.name().to_string()).collect();
        // foreign keys live only in _Validation
        let mut fks: std::collections::HashMap<(String, String), (String, i32)> = Default::default();
        if p.has_table("_Validation") {
            if let Ok(rows) = p.select_rows(Select::table("_Validation")) {
                for r in rows {
                    if r.len() >= 7 {
                        if let (Some(t), Some(c), Some(kt), Some(kc)) = (r[0].as_str(), r[1].as_str(), r[5].as_str(), r[6].as_int()) {
                            fks.insert((t.to_string(), c.to_string()), (kt.to_string(), kc));
                        }
                    }
                }
            }
        }
        let mut tables = Vec::new();
        for n in &names {
            let cols: Vec<J> = {
                let t = p.get_table(n).ok_or("table vanished")?;
                t.columns().iter().map(|c| j::col(c, fks.get(&(n.clone(), c.name().to_string())).cloned())).collect()
            };
            let mut rows = p.select_rows(Select::table(n.as_str())).map_err(|e| format!("select {}: {}", n, e))?;
            let mut out = Vec::new();
            let mut expect = rows.len();
            while let Some(r) = rows.next() {
                if expect == 0 || rows.len() != expect - 1 || r.len() != cols.len() {
                    len_ok = false;
                }
                expect = expect.saturating_sub(1);
                out.push(J::Array((0..r.len()).map(|i| j::val_norm(&r[i])).collect()));
            }
            if expect != 0 {
                len_ok = false;
            }
            tables.push(json!({"name": cps(n), "cols": cols, "rows": out}));
        }
        let snames: Vec<String> = p.streams().collect();
        let mut streams = Vec::new();
        for n in snames {
            let mut b = Vec::new();
            let mut rd = p.read_stream(&n).map_err(|e| format!("read_stream {:?}: {}", n, e))?;
            rd.read_to_end(&mut b).map_err(|e| e.to_string())?;
            streams.push(json!({"name": cps(&n), "data": stream_desc(&b)}));
        }
        self.last_len_ok = len_ok;
        let p = self.pkg.as_ref().unwrap();
        Ok(j::canon_state(&json!({
            "ptype": ptype_str(p.package_type()),
            "cp": p.database_codepage().id(),
            "summary": summary_json(p),
            "sig": p.has_digital_signature(),
            "streams": streams,
            "tables": tables,
        })))
    }

    /// hook snapshot: in-memory pool and modification flags
    pub fn snapshot(&self) -> Option<(Vec<(String, u16)>, J)> {
        let p = self.pkg.as_ref()?;
        let s = p.verif_snapshot();
        let d = json!({"fin": s.finisher, "sum": s.summary_modified, "pool": s.pool_modified});
        Some((s.pool, d))
    }

    /// The logical image of the medium's current bytes by the independent decoder.
    /// `use_mem_pool`: resolve catalog names through the in-memory pool (needed between two saves,
    /// when the pool streams on the medium are stale).
    pub fn image(&self, use_mem_pool: bool) -> Result<codec::Image, String> {
        let bytes = self.med.snap();
        if use_mem_pool {
            if let Some((pool, _)) = self.snapshot() {
                let texts: Vec<String> = pool.into_iter().map(|e| e.0).collect();
                return codec::decode(&bytes, Some(&texts));
            }
        }
        codec::decode(&bytes, None)
    }
}

pub fn pool_json(pool: &[(String, u16)]) -> J {
    J::Array(pool.iter().map(|(s, rc)| json!({"s": cps(s), "rc": rc})).collect())
}

pub fn obj(pairs: Vec<(&str, J)>) -> J {
    let mut m = Map::new();
    for (k, v) in pairs {
        m.insert(k.to_string(), v);
    }
    J::Object(m)
}
