//! C10: transitions of the summary-information model (MC_Summary.tla) replayed on the library.
use crate::cases::{self, Outcome};
use crate::codec::{self, ref_encode};
use crate::j::from_cps;
use crate::propset;
use crate::session::{summary_json, Session};
use crate::walk::diff;
use crate::Args;
use serde_json::{json, Value as J};
use std::io::Write;
use std::sync::Mutex;

static TRACE: Mutex<Vec<String>> = Mutex::new(Vec::new());

fn apply(sess: &mut Session, ev: &J) -> String {
    if ev["op"] == "SaveReopen" {
        let r = sess.exec(&json!({"op":"IntoInner","args":{}}));
        if r != "Ok" {
            return r;
        }
        sess.exec(&json!({"op":"Reopen","args":{}}))
    } else if ev["op"] == "Save" {
        sess.exec(&json!({"op":"Flush","args":{}}))
    } else if ev["op"] == "Reopen" {
        // the object is abandoned; a new one is opened from the bytes the medium held at its last flush
        sess.exec(&json!({"op":"Crash","args":{}}))
    } else {
        sess.exec(&json!({"op":"SetSummary","args": ev["args"]}))
    }
}

fn masked(j: &J, unspec: &[String]) -> J {
    let mut m = j.as_object().cloned().unwrap_or_default();
    for f in unspec {
        m.remove(f);
    }
    J::Object(m)
}

fn halves32(v: u32) -> J {
    json!([v & 0xffff, v >> 16])
}

/// what the saved stream must contain, from the model's expected values
fn want_props(dst: &J, unspec: &[String]) -> (Vec<J>, Vec<u32>) {
    let cp = dst["codepage"]["i"].as_i64().unwrap_or(0);
    let mut w = vec![json!({"id": 1, "ty": 2, "v": (cp as u16) as i16})];
    let mut open: Vec<u32> = Vec::new();
    let ids = [("title", 2u32), ("subject", 3), ("author", 4), ("comments", 6), ("creating_application", 18)];
    for (f, id) in ids {
        if unspec.iter().any(|u| u == f) {
            open.push(id);
        } else if let Some(s) = dst[f].get("s") {
            w.push(json!({"id": id, "ty": 30, "v": ref_encode(cp, &from_cps(s)).unwrap_or_default()}));
        }
    }
    // the template property holds "arch;lang,lang"; when both are absent the property may be absent or ";"
    let arch = dst["arch"].get("s").map(from_cps);
    let langs: Vec<String> = dst["languages"]["l"].as_array().cloned().unwrap_or_default().iter().map(|x| x.to_string()).collect();
    if unspec.iter().any(|u| u == "arch") || (arch.is_none() && langs.is_empty()) {
        open.push(7);
    } else {
        let t = format!("{};{}", arch.unwrap_or_default(), langs.join(","));
        w.push(json!({"id": 7, "ty": 30, "v": ref_encode(cp, &t).unwrap_or_default()}));
    }
    if let Some(s) = dst["uuid"].get("s") {
        let t = format!("{{{}}}", from_cps(s).to_uppercase());
        w.push(json!({"id": 9, "ty": 30, "v": ref_encode(cp, &t).unwrap_or_default()}));
    }
    if let Some(t) = dst["creation_time"].get("t") {
        let k: u64 = t.as_str().unwrap_or("0").parse().unwrap_or(0);
        w.push(json!({"id": 12, "ty": 64, "v": [k & 0xffff, (k >> 16) & 0xffff, (k >> 32) & 0xffff, (k >> 48) & 0xffff]}));
    }
    if let Some(n) = dst["word_count"].get("i") {
        w.push(json!({"id": 15, "ty": 3, "v": halves32(n.as_i64().unwrap_or(0) as i32 as u32)}));
    }
    (w, open)
}

fn run_case(_c: &mut (), edge: &J, _n: u64) -> Outcome {
    let ev = &edge["ev"];
    let class = format!("{}:{}", ev["op"].as_str().unwrap_or("?"), ev["args"]["field"].as_str().unwrap_or("-"));
    let mut sess = Session::empty();
    sess.exec(&json!({"op":"Create","args":{"ptype":"Installer"}}));
    for st in edge["path"].as_array().cloned().unwrap_or_default() {
        if apply(&mut sess, &st) != "Ok" {
            return Outcome { viol: Some(("summary-path", format!("path step {} failed", st["op"]))), class };
        }
    }
    let unspec: Vec<String> = edge["unspec"].as_array().cloned().unwrap_or_default().iter().map(|x| x.as_str().unwrap_or("").to_string()).collect();
    let r = apply(&mut sess, ev);
    if r != "Ok" {
        return Outcome { viol: Some((if r == "panic" { "summary-panic" } else { "summary-res" }, format!("{} returned {}", ev["op"], r))), class };
    }
    let got = match sess.pkg.as_ref() {
        Some(p) => summary_json(p),
        None => return Outcome { viol: Some(("summary-res", "package not open".into())), class },
    };
    if masked(&got, &unspec) != masked(&edge["dst"], &unspec) {
        return Outcome { viol: Some(("summary-get", format!("getters after {} differ: {}", ev["op"], diff(&masked(&got, &unspec), &masked(&edge["dst"], &unspec))))), class };
    }
    if ev["op"] == "SaveReopen" {
        // the saved stream read by the independent parser, and logged for the TLA+ parser
        let img = match codec::decode(&sess.med.snap(), None) {
            Ok(i) => i,
            Err(e) => return Outcome { viol: Some(("summary-stream", format!("saved package not decodable: {}", e))), class },
        };
        let raw = img.summary.unwrap_or_default();
        match propset::summary_json(&raw) {
            Ok((sj, errs)) => {
                if !errs.is_empty() {
                    return Outcome { viol: Some(("summary-layout", format!("saved summary stream is not well-formed: {}", errs.join("; ")))), class };
                }
                if masked(&sj, &unspec) != masked(&edge["dst"], &unspec) {
                    return Outcome { viol: Some(("summary-stream", format!("independent parser reads different values: {}", diff(&masked(&sj, &unspec), &masked(&edge["dst"], &unspec))))), class };
                }
            }
            Err(e) => return Outcome { viol: Some(("summary-layout", format!("independent parser rejects the saved summary stream: {}", e))), class },
        }
        let (want, open) = want_props(&edge["dst"], &unspec);
        TRACE.lock().unwrap().push(json!({"bytes": raw, "want": want, "open": open}).to_string());
    }
    Outcome { viol: None, class }
}

/// impl -> spec: random setter sequences over all 26 code pages with strings drawn from each
/// page's repertoire; every saved stream is logged for Trace_Summary (TLA+ parser).
pub fn random_main(args: &Args) -> i32 {
    use crate::rnd::Rng;
    let seed = args.num("seed", 1);
    let runs = args.num("runs", 200);
    let mut rng = Rng::new(seed);
    let pages: [i64; 26] = [932, 936, 949, 950, 951, 1250, 1251, 1252, 1253, 1254, 1255, 1256, 1257, 1258, 10000, 10007, 20127, 28591, 28592, 28593, 28594, 28595, 28596, 28597, 28598, 65001];
    let cands: Vec<char> = "aZ09 ;,{}\u{e9}\u{df}\u{f1}\u{416}\u{3b1}\u{5d0}\u{627}\u{3042}\u{4e2d}\u{d55c}\u{20ac}\u{1f600}\u{142}\u{11f}".chars().collect();
    let mut out = std::io::BufWriter::new(std::fs::File::create(args.get("trace").expect("--trace")).expect("trace"));
    let mut viols: Vec<J> = Vec::new();
    let mut lines = 0u64;
    let mut by_page: std::collections::BTreeMap<i64, u64> = Default::default();
    for run in 0..runs {
        let mut sess = Session::empty();
        let pt = ["Installer", "Patch", "Transform"][(run % 3) as usize];
        sess.exec(&json!({"op":"Create","args":{"ptype": pt}}));
        let mut script: Vec<J> = Vec::new();
        let mut cp: i64 = 65001;
        let steps = 2 + rng.below(10);
        let mut expect = match sess.pkg.as_ref() { Some(p) => summary_json(p), None => continue };
        for _ in 0..steps {
            let ev = match rng.below(10) {
                0 | 1 => {
                    cp = pages[((run + rng.below(3)) % 26) as usize];
                    json!({"op":"Set","args":{"field":"codepage","value":{"i":cp}}})
                }
                2 => json!({"op":"Set","args":{"field":"word_count","value": if rng.chance(1,4) { json!({"absent":0}) } else { json!({"i": rng.next() as i32}) }}}),
                3 => json!({"op":"Set","args":{"field":"languages","value": if rng.chance(1,4) { json!({"absent":0}) } else { json!({"l": (0..1 + rng.below(3)).map(|_| *rng.pick(&[1033u16, 1036, 0, 65535, 2057, 1041])).collect::<Vec<_>>()}) }}}),
                _ => {
                    let f = *rng.pick(&["title", "subject", "author", "comments", "creating_application", "arch"]);
                    if rng.chance(1, 5) {
                        json!({"op":"Set","args":{"field":f,"value":{"absent":0}}})
                    } else {
                        // drawn from the repertoire of the page in force now (later page switches may still lose it)
                        let rep: Vec<char> = cands.iter().cloned().filter(|c| {
                            let st = c.to_string();
                            (f != "arch" || (*c != ';')) && ref_encode(cp, &st).map(|b| b != b"?").unwrap_or(false)
                        }).collect();
                        // one run in twelve carries long texts: the stream then spans several sectors and read
                        // buffers (8 KiB windows in the container layer), with strings lying across their ends
                        let len = if run % 12 == 5 && f != "arch" { *rng.pick(&[2000u64, 4090, 5000, 8180, 9000]) + rng.below(8) } else { 1 + rng.below(9) };
                        let sv: String = (0..len).map(|_| *rng.pick(&rep)).collect();
                        json!({"op":"Set","args":{"field":f,"value":{"s": crate::j::cps(&sv)}}})
                    }
                }
            };
            if apply(&mut sess, &ev) != "Ok" {
                viols.push(json!({"kind":"summary-res","op":"Set","what":"a summary setter failed or panicked","case":{"script":script.clone(),"ev":ev}}));
                break;
            }
            let f = ev["args"]["field"].as_str().unwrap().to_string();
            expect[&f] = ev["args"]["value"].clone();
            script.push(ev);
            // now and then the SAME object is saved in between (a save changes nothing the getters report,
            // and everything is written again, in the page of that moment, by the next save)
            if rng.chance(1, 4) {
                let sv = json!({"op":"Save","args":{"x":0}});
                if apply(&mut sess, &sv) != "Ok" {
                    viols.push(json!({"kind":"summary-res","op":"Save","what":"flush failed or panicked","case":{"script":script.clone()}}));
                    break;
                }
                script.push(sv);
            }
            let got = sess.pkg.as_ref().map(summary_json).unwrap_or(J::Null);
            if got != expect {
                viols.push(json!({"kind":"summary-get","op":"Set","what": format!("getters differ right after a setter: {}", diff(&got, &expect)),"case":{"script":script.clone()}}));
                break;
            }
        }
        // which fields can the final page represent?
        let mut unspec: Vec<String> = Vec::new();
        for f in ["title", "subject", "author", "comments", "creating_application", "arch"] {
            if let Some(sv) = expect[f].get("s") {
                let t = from_cps(sv);
                let ok = t.chars().all(|c| ref_encode(cp, &c.to_string()).map(|b| b != b"?" || c == '?').unwrap_or(false));
                if !ok { unspec.push(f.to_string()); }
            }
        }
        if apply(&mut sess, &json!({"op":"SaveReopen","args":{}})) != "Ok" {
            viols.push(json!({"kind":"summary-res","op":"SaveReopen","what":"saving and reopening failed","case":{"script":script.clone()}}));
            continue;
        }
        let got = sess.pkg.as_ref().map(summary_json).unwrap_or(J::Null);
        if masked(&got, &unspec) != masked(&expect, &unspec) {
            viols.push(json!({"kind":"summary-get","op":"SaveReopen","what": format!("getters after save+reopen differ: {}", diff(&masked(&got, &unspec), &masked(&expect, &unspec))),"case":{"script":script.clone()}}));
        }
        if let Ok(img) = codec::decode(&sess.med.snap(), None) {
            let raw = img.summary.unwrap_or_default();
            let (want, open) = want_props(&expect, &unspec);
            let _ = writeln!(out, "{}", json!({"bytes": raw, "want": want, "open": open}));
            lines += 1;
            *by_page.entry(cp).or_insert(0) += 1;
        }
    }
    println!("SUMMARYRANDOM {}", json!({"runs": runs, "lines": lines, "pages": by_page.len(), "violations": viols.len()}));
    if let Some(p) = args.get("viol") {
        let mut f = std::fs::File::create(p).expect("viol");
        for v in &viols { let _ = writeln!(f, "{}", v); }
    }
    if viols.is_empty() { 0 } else { 1 }
}

pub fn main(args: &Args) -> i32 {
    let rc = cases::run(args, "EDGE", "SUMMARY", || (), run_case);
    if let Some(p) = args.get("trace") {
        let mut f = std::io::BufWriter::new(std::fs::File::create(p).expect("trace"));
        for l in TRACE.lock().unwrap().iter() {
            let _ = writeln!(f, "{}", l);
        }
    }
    rc
}
