----------------------------- MODULE MC_Foreign ------------------------------
(***************************************************************************)
(* C02: databases produced by an independent encoder.  An IMAGE is a       *)
(* logical database plus layout choices the format allows and the library  *)
(* itself never makes: a pool with unused entries (empty or with stale     *)
(* text), duplicate texts, over-counted reference counts, three-byte       *)
(* references, any code-page id (incl. 0), rows not in key order, integer  *)
(* field size 1, no _Validation table, a property set laid out differently.*)
(* Every image is an initial state of the package model: the state the     *)
(* specification says opening the image yields.  From there the ordinary   *)
(* actions apply and every transition is emitted and replayed; the harness *)
(* materialises the image with its own encoder.                            *)
(***************************************************************************)
EXTENDS MC_Msi

\* ---- abstract databases ---------------------------------------------------
ColK32 == IntCol(K, "i32", FALSE, TRUE)
ColN   == MkCol(<<78>>, "i16", 0, TRUE, FALSE, FALSE, <<>>, <<>>, <<>>, <<>>)         \* "N" nullable int16
ColS   == MkCol(<<83>>, "s", 0, TRUE, FALSE, TRUE, <<>>, <<>>, C_Text, <<>>)          \* "S" localizable text, unlimited
TabA == <<ColK, ColV>>
CName(k) == <<67, 48 + (k \div 10), 48 + (k % 10)>>
Cols32 == [k \in 1..32 |->
             IF k = 1 THEN IntCol(CName(k), "i16", FALSE, TRUE)
             ELSE CASE k % 4 = 0 -> IntCol(CName(k), "i32", TRUE, FALSE)
                    [] k % 4 = 1 -> IntCol(CName(k), "i16", k % 8 = 1, FALSE)
                    [] k % 4 = 2 -> StrCol(CName(k), IF k = 2 THEN 1 ELSE 8, TRUE, FALSE, <<>>)     \* C02 is CHAR(1): for a string the low byte 1 is a width
                    [] OTHER     -> MkCol(CName(k), "s", 0, TRUE, FALSE, TRUE, <<>>, <<>>, C_Text, <<>>)]
Row32(r) == [k \in 1..32 |->
               IF k = 1 THEN IntV(r)
               ELSE CASE k % 4 = 0 -> (IF r = 1 THEN IntV(-2147483647) ELSE Null)
                      [] k % 4 = 1 -> IntV(IF r = 1 THEN 32767 ELSE -32767)
                      [] k % 4 = 2 -> (IF (k + r) % 3 = 0 THEN Null ELSE StrV(<<97 + (k % 3)>>))
                      [] OTHER     -> StrV(<<233, 48 + (k % 10)>>)]
TabB == <<ColS, ColK32, ColN>>                      \* string first, key second, mixed integer widths
se2 == StrV(<<233, 233>>)
Dbs == [ d1 |-> [tabs |-> (T :> [cols |-> TabA, rows |-> <<<<IntV(1), sa>>, <<IntV(2), sT>>>>]),
                 streams |-> << >>],
         d2 |-> [tabs |-> (T :> [cols |-> TabA, rows |-> <<<<IntV(1), sa>>, <<IntV(2), sa>>, <<IntV(3), Null>>>>])
                          @@ (U :> [cols |-> TabB, rows |-> <<<<sa, IntV(-2147483647), IntV(-32767)>>, <<se2, IntV(2147483647), Null>>>>]),
                 \* "s"; "_" and "ab0": the ends of the packing alphabet as the odd character of a run
                 \* "a\u4840b": the table marker inside a name is an ordinary character
                 streams |-> (<<115>> :> "b0102") @@ (<<95>> :> "b03") @@ (<<97, 98, 48>> :> "b04") @@ (<<97, 18496, 98>> :> "b05")
                             \* "-bc": a pair of packable characters that starts at an odd offset (runs pair up from where they start)
                             @@ (<<45, 98, 99>> :> "b06")],
         d3 |-> [tabs |-> (T :> [cols |-> TabA, rows |-> <<>>]), streams |-> << >>],
         \* a string longer than 64 KiB (the pool's long form) next to a short one, in an unlimited-width column
         d4 |-> [tabs |-> (T :> [cols |-> <<ColK, StrCol(V, 0, TRUE, FALSE, <<>>)>>,
                                 rows |-> <<<<IntV(1), StrV([k \in 1..66000 |-> 97 + (k % 7)])>>, <<IntV(2), sa>>,
                                            \* exactly 65536 bytes: the low half of the long form's length is 0
                                            <<IntV(3), StrV([k \in 1..65536 |-> 98 + (k % 5)])>>,
                                            \* exactly 65535 bytes: the longest string of the short form
                                            <<IntV(4), StrV([k \in 1..65535 |-> 99 + (k % 3)])>>>>]),
                 streams |-> << >>],
         \* 32 columns in a type mix (i16, i32, string(8), unlimited localizable string; nullable and not)
         d5 |-> [tabs |-> (T :> [cols |-> Cols32, rows |-> <<Row32(1), Row32(2)>>]), streams |-> << >>],
         \* 33 columns: one more than create_table allows, which a file written by another tool may still have (MC_Corrupt)
         d6 |-> [tabs |-> (T :> [cols |-> Cols32 \o <<IntCol(CName(33), "i16", TRUE, FALSE)>>, rows |-> <<Row32(1) \o <<IntV(7)>>>>]), streams |-> << >>] ]

\* ---- layout choices -------------------------------------------------------
LayoutChoices ==
  [refw : {2, 3}, cpid : {0, 1252, 65001}, holes : {"none", "empty", "stale"}, dup : BOOLEAN, over : BOOLEAN,
   validation : BOOLEAN, unsorted : BOOLEAN, int1 : BOOLEAN, ps : {"asc", "desc", "gap", "nocp", "cp0"}]
\* ps: layout of the summary property set - ids ascending / descending / section after a gap; "nocp": no
\* code-page property, "cp0": code-page property 0 (both: the default page; the image's summary text is UTF-8)

\* the catalog rows as VALUES for a set of tables
CatalogRows(tabs, withV) ==
  LET names == SetToSeq(DOMAIN tabs)
      all == IF withV THEN <<N_Validation>> \o names ELSE names
      colsOf(t) == IF t = N_Validation THEN ValidationCols ELSE tabs[t].cols
  IN [tables |-> [k \in 1..Len(all) |-> <<StrV(all[k])>>],
      columns |-> FoldLeft(LAMBDA acc, t : acc \o ColumnsRows(t, colsOf(t)), <<>>, all),
      validation |-> FoldLeft(LAMBDA acc, t : acc \o ValidationRows(t, colsOf(t)), <<>>, all)]

Reverse2(rows) == [k \in 1..Len(rows) |-> rows[Len(rows) + 1 - k]]

\* images with stale unused entries also carry validation rows of a table "Gone" that does not exist
Orphan(c) == c.validation /\ c.holes = "stale"
\* the image: pool + cells of every table stream
BuildImage(db, c) ==
  LET cat == CatalogRows(db.tabs, c.validation)
      p0 == CASE c.holes = "none" -> <<>>
              [] c.holes = "empty" -> <<Free, Free>>
              [] c.holes = "stale" -> <<[s |-> <<122, 122>>, rc |-> 0], Free>>
      sortV(cols, rows) == IF c.unsorted THEN Reverse2(SortByKey(cols, rows)) ELSE SortByKey(cols, rows)
      \* intern with "append only" so that the holes stay unused (a foreign writer need not fill them)
      appendRow(p, row) == FoldLeft(LAMBDA acc, v :
                              IF IsStr(v) /\ v.s # <<>>
                              THEN LET hit == {k \in 1..Len(acc.pool) : acc.pool[k].rc > 0 /\ acc.pool[k].s = v.s /\ acc.pool[k].rc < RcCap}
                                   IN IF hit = {} THEN [pool |-> Append(acc.pool, Fresh(v.s)), cells |-> Append(acc.cells, Ref(Len(acc.pool) + 1))]
                                      ELSE [pool |-> [acc.pool EXCEPT ![MinOf(hit)].rc = @ + 1], cells |-> Append(acc.cells, Ref(MinOf(hit)))]
                              ELSE [pool |-> acc.pool, cells |-> Append(acc.cells, Norm(v))],
                            [pool |-> p, cells |-> <<>>], row)
      appendRows(p, rows) == FoldLeft(LAMBDA acc, row : LET x == appendRow(acc.pool, row) IN [pool |-> x.pool, rows |-> Append(acc.rows, x.cells)],
                                      [pool |-> p, rows |-> <<>>], rows)
      a == appendRows(p0, SortByKey(TablesCols, cat.tables))
      \* "unsorted" also stores the rows of _Columns in descending order (a reader must order columns by Number)
      b == appendRows(a.pool, IF c.unsorted THEN Reverse2(SortByKey(ColumnsCols, cat.columns)) ELSE SortByKey(ColumnsCols, cat.columns))
      \* other tools leave rows in _Validation that describe tables the database does not (or no longer) have
      vrows == IF Orphan(c) THEN cat.validation \o ValidationRows(<<71, 111, 110, 101>>, <<ColK, ColV>>) ELSE cat.validation
      v == IF c.validation THEN appendRows(b.pool, SortByKey(ValidationCols, vrows)) ELSE [pool |-> b.pool, rows |-> <<>>]
      names == SetToSeq(DOMAIN db.tabs)
      u == FoldLeft(LAMBDA acc, t : LET x == appendRows(acc.pool, sortV(db.tabs[t].cols, db.tabs[t].rows))
                                    IN [pool |-> x.pool, ts |-> TsSet(acc.ts, t, x.rows)],
                    [pool |-> v.pool, ts |-> << >>], names)
      ts0 == TsSet(TsSet(u.ts, N_Tables, a.rows), N_Columns, b.rows)
      ts1 == IF c.validation THEN TsSet(ts0, N_Validation, v.rows) ELSE ts0
      \* duplicate text: the last cell referring to an entry with two or more users gets an entry of its own
      pd == IF c.dup /\ \E k \in 1..Len(u.pool) : u.pool[k].rc >= 2 /\ Ref(k) \in {ts1[N_Columns][r][3] : r \in 1..Len(ts1[N_Columns])}
            THEN LET cand == {j \in 1..Len(u.pool) : u.pool[j].rc >= 2 /\ Ref(j) \in {ts1[N_Columns][r][3] : r \in 1..Len(ts1[N_Columns])}}
                     \* preferably the name of the nullable column V: its _Validation row (found through the OTHER copy of
                     \* the text) carries what the type word does not - a reader must match catalog rows by text
                     \* (the localizable text column S of table U has a category; failing that, V)
                     k == IF \E j \in cand : u.pool[j].s = <<83>> THEN CHOOSE j \in cand : u.pool[j].s = <<83>>
                          ELSE IF \E j \in cand : u.pool[j].s = V THEN CHOOSE j \in cand : u.pool[j].s = V ELSE MinOf(cand)
                     r == MinOf({r \in 1..Len(ts1[N_Columns]) : ts1[N_Columns][r][3] = Ref(k)})
                 IN [pool |-> Append([u.pool EXCEPT ![k].rc = @ - 1], Fresh(u.pool[k].s)),
                     ts |-> [ts1 EXCEPT ![N_Columns][r][3] = Ref(Len(u.pool) + 1)]]
            ELSE [pool |-> u.pool, ts |-> ts1]
      \* ... and the _Validation rows of one table (U if there is one: its columns have categories) name their table
      \* through a second copy of its name
      dupT == IF U \in DOMAIN db.tabs THEN U ELSE T
      pd2 == IF c.dup /\ c.validation /\ dupT \in DOMAIN db.tabs
             THEN LET kk == {j \in 1..Len(pd.pool) : pd.pool[j].rc > 0 /\ pd.pool[j].s = dupT} IN
                  IF kk = {} THEN pd ELSE
                  LET k == MinOf(kk)
                      R == {r \in 1..Len(pd.ts[N_Validation]) : pd.ts[N_Validation][r][1] = Ref(k)}
                      n == Len(pd.pool) + 1
                  IN IF R = {} \/ pd.pool[k].rc <= Cardinality(R) THEN pd ELSE
                     [pool |-> Append([pd.pool EXCEPT ![k].rc = @ - Cardinality(R)], [s |-> dupT, rc |-> Cardinality(R)]),
                      ts |-> [pd.ts EXCEPT ![N_Validation] = [r \in 1..Len(@) |-> IF r \in R THEN [@[r] EXCEPT ![1] = Ref(n)] ELSE @[r]]]]
             ELSE pd
      po == IF c.over /\ Len(pd2.pool) > 0 THEN [pd2.pool EXCEPT ![Len(pd2.pool)].rc = @ + 1] ELSE pd2.pool
  IN [pool |-> po, ts |-> pd2.ts]

ImgSummary == [InitSummary EXCEPT !.author = StrV(<<233, 120>>), !.word_count = IntV(2), !.arch = StrV(<<120, 54, 52>>), !.languages = [l |-> <<1033>>],
                                   \* a package code, as every real installer has one
                                   !.uuid = StrV(<<48, 49, 50, 51, 52, 53, 54, 55, 45, 56, 57, 97, 98, 45, 99, 100, 101, 102, 45, 48, 49, 50, 51, 45, 52, 53, 54, 55, 56, 57, 97, 98, 99, 100, 101, 102>>)]

\* The thorough set: the full product of the choices that meet in the table and pool readers (reference width,
\* unused entries, duplicate texts, over-counted counts, _Validation, row order) for each database; the code-page
\* id and the property-set layout, which are read by independent code, cycle along (each value with each
\* value of every other choice at least once); their own product is taken on d2.
Mix(w, h, d, o, v, u) == (IF w = 3 THEN 1 ELSE 0) + (CASE h = "none" -> 0 [] h = "empty" -> 1 [] OTHER -> 2) + (IF d THEN 1 ELSE 0)
                         + 2 * (IF o THEN 1 ELSE 0) + (IF v THEN 1 ELSE 0) + 3 * (IF u THEN 1 ELSE 0)
CoreChoices ==
  {[refw |-> w, holes |-> h, dup |-> d, over |-> o, validation |-> v, unsorted |-> u,
    cpid |-> <<0, 1252, 65001>>[(Mix(w, h, d, o, v, u) % 3) + 1],
    ps |-> <<"asc", "desc", "gap", "nocp", "cp0">>[((Mix(w, h, d, o, v, u) \div 3) % 5) + 1],
    int1 |-> Mix(w, h, d, o, v, u) % 2 = 1] :
     w \in {2, 3}, h \in {"none", "empty", "stale"}, d \in BOOLEAN, o \in BOOLEAN, v \in BOOLEAN, u \in BOOLEAN}
Images == {[db |-> d, c |-> c] : d \in {"d1", "d2", "d3"}, c \in CoreChoices}
          \cup {[db |-> "d2", c |-> [refw |-> w, holes |-> "none", dup |-> FALSE, over |-> FALSE, validation |-> TRUE, unsorted |-> FALSE,
                                     cpid |-> p, ps |-> l, int1 |-> i]] : w \in {2, 3}, p \in {0, 1252, 65001}, l \in {"asc", "desc", "gap", "nocp", "cp0"}, i \in BOOLEAN}
Plain == [refw |-> 2, cpid |-> 65001, holes |-> "none", dup |-> FALSE, over |-> FALSE, validation |-> TRUE, unsorted |-> FALSE, int1 |-> FALSE, ps |-> "asc"]
\* further axes, one at a time: the long form and the 32-column table under both reference widths and pool shapes;
\* every supported code-page id (d1 holds ASCII text only, so that every page represents it)
AllCpIds == {0, 932, 936, 949, 950, 951, 1250, 1251, 1252, 1253, 1254, 1255, 1256, 1257, 1258, 10000, 10007, 20127,
             28591, 28592, 28593, 28594, 28595, 28596, 28597, 28598, 65001}
ExtraImages ==
  {[db |-> d, c |-> [Plain EXCEPT !.refw = w, !.holes = h, !.unsorted = u, !.validation = v]] :
      d \in {"d4", "d5"}, w \in {2, 3}, h \in {"none", "stale"}, u \in BOOLEAN, v \in BOOLEAN}
  \cup {[db |-> "d1", c |-> [Plain EXCEPT !.cpid = p]] : p \in AllCpIds}
\* a pairwise-covering subset for the quick tier: every choice value, paired in a round-robin
QuickImages ==
  {[db |-> "d2", c |-> [refw |-> 2, cpid |-> 1252, holes |-> "none", dup |-> FALSE, over |-> FALSE, validation |-> TRUE, unsorted |-> FALSE, int1 |-> FALSE, ps |-> "asc"]],
   [db |-> "d2", c |-> [refw |-> 3, cpid |-> 65001, holes |-> "empty", dup |-> TRUE, over |-> TRUE, validation |-> TRUE, unsorted |-> FALSE, int1 |-> TRUE, ps |-> "desc"]],
   [db |-> "d2", c |-> [refw |-> 2, cpid |-> 0, holes |-> "stale", dup |-> TRUE, over |-> FALSE, validation |-> FALSE, unsorted |-> FALSE, int1 |-> FALSE, ps |-> "gap"]],
   [db |-> "d1", c |-> [refw |-> 3, cpid |-> 1252, holes |-> "stale", dup |-> FALSE, over |-> TRUE, validation |-> FALSE, unsorted |-> TRUE, int1 |-> TRUE, ps |-> "asc"]],
   [db |-> "d1", c |-> [refw |-> 2, cpid |-> 65001, holes |-> "empty", dup |-> FALSE, over |-> FALSE, validation |-> TRUE, unsorted |-> TRUE, int1 |-> FALSE, ps |-> "gap"]],
   [db |-> "d3", c |-> [refw |-> 2, cpid |-> 0, holes |-> "none", dup |-> FALSE, over |-> FALSE, validation |-> FALSE, unsorted |-> FALSE, int1 |-> TRUE, ps |-> "desc"]],
   [db |-> "d5", c |-> [refw |-> 3, cpid |-> 1252, holes |-> "empty", dup |-> FALSE, over |-> FALSE, validation |-> TRUE, unsorted |-> TRUE, int1 |-> FALSE, ps |-> "asc"]],
   [db |-> "d1", c |-> [Plain EXCEPT !.cpid = 932]], [db |-> "d1", c |-> [Plain EXCEPT !.cpid = 28598]],
   [db |-> "d2", c |-> [Plain EXCEPT !.ps = "nocp"]], [db |-> "d1", c |-> [Plain EXCEPT !.ps = "cp0", !.refw = 3]],
   [db |-> "d4", c |-> [Plain EXCEPT !.refw = 3, !.holes = "stale"]]}

\* "foreignr" (C04): catalogs another tool wrote, with and without orphan rows
RejectImages == {[db |-> "d1", c |-> [Plain EXCEPT !.holes = "stale"]], [db |-> "d1", c |-> Plain],
                 [db |-> "d2", c |-> [Plain EXCEPT !.holes = "stale", !.refw = 3, !.unsorted = TRUE]],
                 [db |-> "d1", c |-> Plain @@ [ostream |-> TRUE]]}

\* with the "desc" layout the code-page property is listed LAST and the text is in Windows-1252: a reader must
\* find the page before decoding any string
\* with the "gap" layout the template names the platform only ("x64", no language list and no separator)
SummaryOf(c) == IF c.ps = "desc" THEN [ImgSummary EXCEPT !.codepage = IntV(1252)]
                ELSE IF c.ps = "gap" THEN [ImgSummary EXCEPT !.languages = Absent] ELSE ImgSummary
ImgJ(i, img) ==
  [db |-> i.db, c |-> i.c, ptype |-> "Installer", cp |-> i.c.cpid, longrefs |-> i.c.refw = 3,
   pool |-> img.pool,
   tables |-> SetToSeq({[name |-> t,
                         words |-> LET cols == IF t = N_Tables THEN TablesCols ELSE IF t = N_Columns THEN ColumnsCols
                                               ELSE IF t = N_Validation THEN ValidationCols ELSE Dbs[i.db].tabs[t].cols
                                   IN [k \in 1..Len(cols) |-> TypeWord(cols[k])],
                         cells |-> img.ts[t]] : t \in DOMAIN img.ts}),
   \* a table stream that no catalog row mentions (left behind by a tool that edited the catalog only)
   ostreams |-> IF "ostream" \in DOMAIN i.c THEN <<[name |-> <<71, 111, 110, 101>>, words |-> <<TypeWord(ColK)>>, cells |-> <<<<IntV(1)>>>>]>> ELSE <<>>,
   summary |-> SummaryOf(i.c), pslayout |-> i.c.ps, int1 |-> i.c.int1,
   streams |-> SetToSeq({[name |-> n, data |-> Dbs[i.db].streams[n]] : n \in DOMAIN Dbs[i.db].streams})]

\* the image an exploration started from: part of the VIEW, or TLC would keep one image per abstract database
\* (the layout choices do not show in the package state)
VARIABLE lay
fview == <<view, lay>>
FInit ==
  \E i \in (IF Cfg = "foreignr" THEN RejectImages ELSE IF Cfg = "foreignq" THEN QuickImages ELSE IF Cfg = "foreignx" THEN ExtraImages ELSE Images) :
    LET img == BuildImage(Dbs[i.db], i.c) IN
    /\ tstream = img.ts /\ pool = NormPool(img.pool)
    /\ schemas = DecodeSchemas(img.ts, img.pool)
    /\ cp = (IF i.c.cpid = 0 THEN 65001 ELSE i.c.cpid) /\ summary = SummaryOf(i.c)
    /\ dirty = [fin |-> FALSE, sum |-> FALSE, pool |-> FALSE]
    /\ dpool = [cp |-> cp, e |-> img.pool] /\ dsum = summary
    /\ ustreams = Dbs[i.db].streams /\ sess = "open" /\ ptype = "Installer" /\ ro = TRUE /\ msync = TRUE
    /\ hist = [path |-> <<>>, last |-> [op |-> "OpenImage", args |-> ImgJ(i, img), res |-> "Ok"]]
    /\ lay = i

FAlphabet ==
  {Ins(T, <<<<IntV(9), sb>>>>), Ins(T, <<<<IntV(2), sa>>>>), Del(T, Eq(K, IntV(1))), Upd(T, <<<<K, IntV(7)>>>>, Eq(K, IntV(2))),
   Cre(X, TabT), Ins(X, <<<<IntV(1), sb>>>>), Drp(T),
   Cre(<<71, 111, 110, 101>>, TabT),       \* the table that orphan _Validation rows describe: refused as a whole (duplicate catalog keys) or created      \* a table created in a foreign database uses ITS reference width
   E("WriteStream", [name |-> <<110>>, data |-> "b07"]),
   E("SetSummary", [field |-> "comments", value |-> StrV(<<99>>)]),
   E("Flush", [x |-> 0]), E("IntoInner", [x |-> 0]), E("Reopen", [x |-> 0])}
\* refused calls naming the table that only orphan catalog rows describe: the rows stay (C04 on foreign catalogs)
Gone == <<71, 111, 110, 101>>
GoneRejects == {Drp(Gone), Cre(Gone, <<>>), Cre(Gone, <<ColV>>),
                Cre(Gone, TabT)}      \* well-formed, refused only because the catalog already describes the name (found late by a careless writer)
\* "foreignr" (C04): refused calls of every statement kind on catalogs another tool wrote, with and without orphan rows
RAlphabet == {Ins(T, <<<<IntV(9)>>>>), Ins(T, <<<<IntV(1), sb>>>>), Upd(T, <<<<X, Null>>>>, True), Upd(T, <<<<K, sa>>>>, True),
              Del(T, Eq(X, IntV(1))), Drp(X), Cre(T, TabT), Cre(X, <<ColV>>), Ins(T, <<<<IntV(9), sb>>>>),
              E("Flush", [x |-> 0]), E("Reopen", [x |-> 0])}
FNext == /\ \/ \E e \in (IF Cfg = "foreignr" THEN RAlphabet ELSE FAlphabet) : Do(e)
            \/ sess = "open" /\ CatalogMentions(Cur, Gone) /\ Gone \notin DOMAIN Cur.schemas /\ \E e \in GoneRejects : Do(e)
            \* an orphan stream waits under the name: refused creations leave it alone (every byte), an accepted one
            \* starts the table EMPTY whatever the stream held (its bytes are no rows of the new table's layout)
            \/ sess = "open" /\ "ostream" \in DOMAIN lay.c /\ Gone \notin DOMAIN Cur.schemas
               /\ \E e \in {Cre(Gone, <<>>), Cre(Gone, <<ColK, StrCol(V, 300, TRUE, FALSE, <<>>)>>), Drp(Gone),
                             Cre(Gone, TabT), Cre(Gone, <<ColK32>>)} : Do(e)
         /\ UNCHANGED lay
FSpec == FInit /\ [][FNext]_<<vars, lay>>

\* what opening the image must report, for the first replayed step of every path
FEmit == PrintT(<<"EDGE", ToJson([path |-> hist'.path, ev |-> hist'.last, open |-> sess' = "open", clean |-> ~dirty'.fin,
                                  preclean |-> ~dirty.fin, present |-> Present(tstream'),
                                  dst |-> DiffJ(IF sess = "open" THEN AbsS(Cur) ELSE NoTables, AbsS(Nxt))])>>)
\* one line per image with the complete state that opening it must yield
FOpen == hist.last.op = "OpenImage" => PrintT(<<"IMAGE", ToJson([img |-> hist.last.args, want |-> AbsJ(AbsS(Cur))])>>)
Depth == Len(hist.path) <= 3
=============================================================================
