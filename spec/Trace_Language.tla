--------------------------- MODULE Trace_Language ----------------------------
(***************************************************************************)
(* C17 on the OBSERVED functions of the library.  The trace holds          *)
(*   lines 1..65536   [k |-> "t", c |-> code, tag |-> cps, back |-> code]  *)
(*                    tag() of every 16-bit code (in code order) and the   *)
(*                    code reported by from_code(c).code()                 *)
(*   further lines    [k |-> "f", tag |-> cps, c |-> code]  from_tag()     *)
(*                    of every tag seen above, of the reference tags, and  *)
(*                    of bounded-exhaustive and random tag strings         *)
(* TLC loads them as two finite functions and evaluates every law with a   *)
(* universal quantifier over the full domain (one verdict per line).       *)
(***************************************************************************)
EXTENDS Integers, Sequences, FiniteSets, SequencesExt, Json, IOUtils, TLC, LangRef
Rec == ndJsonDeserialize(IOEnv.TRACE)
N == 65536
T(c) == Rec[c + 1].tag
Und == <<117, 110, 100>>
AllTags == {Rec[k].tag : k \in 1..N}
FromLines == {k \in (N + 1)..Len(Rec) : Rec[k].k = "f"}
F == [t \in {Rec[k].tag : k \in FromLines} |-> Rec[CHOOSE k \in FromLines : Rec[k].tag = t].c]

Dash(t) == {k \in 1..Len(t) : t[k] = 45}
LangPart(t) == IF Dash(t) = {} THEN t ELSE SubSeq(t, 1, (CHOOSE k \in Dash(t) : \A j \in Dash(t) : k <= j) - 1)

GoodTag(e) ==
  LET c == e.c  t == e.tag  base == T(c % 1024) IN
  /\ e.back = c                                                     \* the code is preserved
  /\ (base = Und => t = Und)                                         \* unknown language
  /\ (base # Und => (t = base \/ (Len(t) > Len(base) /\ SubSeq(t, 1, Len(base) + 1) = base \o <<45>>)))
  /\ t \in DOMAIN F /\ T(F[t]) = t                                   \* tag -> language -> tag is the identity
  /\ (t # Und => F[t] <= c)                                          \* a table tag maps to its own (first) code
  \* "the bare language tag for an unknown sublanguage": every table tag maps to its OWN code, so a regional tag
  \* has exactly one code; any other code with that language has a sublanguage the table does not know
  /\ ((t # Und /\ t # base) => F[t] = c)
GoodFrom(e) ==
  LET t == e.tag  c == e.c  lp == LangPart(t) IN
  IF t \in AllTags /\ t # Und THEN T(c) = t
  ELSE IF lp \notin AllTags \/ lp = Und THEN c = 0                   \* unknown language -> neutral
  ELSE /\ T(c) = lp                                                  \* known language, unknown region: never another region
       \* ... and if from_tag tells this tag apart from the bare language (another code), the library knows the
       \* tag: it is a table tag and must map back to itself - which tag() then contradicts
       /\ (lp \in DOMAIN F => c = F[lp])
GoodRef == \A k \in 1..Len(WellKnown) : T(WellKnown[k][1]) = WellKnown[k][2] /\ WellKnown[k][2] \in DOMAIN F /\ F[WellKnown[k][2]] = WellKnown[k][1]
BadRefs == {WellKnown[k][1] : k \in {j \in 1..Len(WellKnown) : ~(T(WellKnown[j][1]) = WellKnown[j][2] /\ WellKnown[j][2] \in DOMAIN F /\ F[WellKnown[j][2]] = WellKnown[j][1])}}

VARIABLE l
Init == l = 1 /\ (GoodRef \/ PrintT(<<"STEP-REJECTED", 0, <<"well-known identifiers", BadRefs>>>>))
Next == /\ l <= Len(Rec) /\ l' = l + 1
        /\ LET e == Rec[l] IN
           ((IF e.k = "t" THEN GoodTag(e) ELSE GoodFrom(e)) \/ PrintT(<<"STEP-REJECTED", l, <<e.k, e.c, e.tag>>>>))
Spec == Init /\ [][Next]_l
Accepted == IF TLCGet("stats").diameter - 1 = Len(Rec) /\ Len(Rec) > N THEN TRUE
            ELSE Print(<<"TRACE-NOT-CONSUMED", TLCGet("stats").diameter, "of", Len(Rec)>>, FALSE)
=============================================================================
