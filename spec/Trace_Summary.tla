---------------------------- MODULE Trace_Summary ----------------------------
(***************************************************************************)
(* C10: every saved summary stream, as raw bytes, read by the TLA+ parser  *)
(* of PropSet.tla.  Line: [bytes, want, open]                              *)
(*   want  sequence of [id, ty, v] the stream must contain (v: for strings *)
(*         the reference encoding of the expected text in the code page    *)
(*         last set; 16-bit halves for 32/64-bit numbers)                  *)
(*   open  property ids whose presence/value the property leaves open      *)
(***************************************************************************)
EXTENDS PropSet, Json, IOUtils
Rec == ndJsonDeserialize(IOEnv.TRACE)
VARIABLE l
Good(e) ==
  /\ LayoutWF(e.bytes)
  /\ LET ps == Props(e.bytes)
         ids == {e.want[k].id : k \in 1..Len(e.want)}
         open == {e.open[k] : k \in 1..Len(e.open)}
     IN /\ (DOMAIN ps) \ open = ids \ open
        /\ \A k \in 1..Len(e.want) : e.want[k].id \in open \/ ps[e.want[k].id] = [ty |-> e.want[k].ty, v |-> e.want[k].v]
Init == l = 1
Next == /\ l <= Len(Rec) /\ l' = l + 1
        /\ (Good(Rec[l]) \/ PrintT(<<"STEP-REJECTED", l, IF LayoutWF(Rec[l].bytes) THEN "values" ELSE "layout">>))
Spec == Init /\ [][Next]_l
Accepted == IF TLCGet("stats").diameter - 1 = Len(Rec) THEN TRUE
            ELSE Print(<<"TRACE-NOT-CONSUMED", TLCGet("stats").diameter, "of", Len(Rec)>>, FALSE)
=============================================================================
