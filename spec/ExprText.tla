------------------------------ MODULE ExprText -------------------------------
(***************************************************************************)
(* C19: an independent reader of printed expressions and queries.  Input   *)
(* is a TOKEN sequence (the harness's tokenizer knows nothing about        *)
(* precedence):                                                            *)
(*   [t |-> "kw", v |-> "NOT"]  keywords, upper-cased                      *)
(*   [t |-> "id", v |-> cps]    (compound) identifiers                     *)
(*   [t |-> "int", v |-> n]     unsigned integer literals                  *)
(*   [t |-> "str", v |-> cps]   quoted strings (contents)                  *)
(*   [t |-> "op", v |-> "<="]   operators, "(" ")" "," "*"                 *)
(* Expressions are read with the precedence ladder of the project's query  *)
(* grammar (examples/msiquery.pest): OR < AND < NOT < comparison < | < ^ <  *)
(* & < shifts < + - < * / < unary - ~ ; binary operators associate left.   *)
(***************************************************************************)
EXTENDS Expr

IsTok(toks, p, t, v) == p <= Len(toks) /\ toks[p].t = t /\ toks[p].v = v
IsOp(toks, p, v) == IsTok(toks, p, "op", v)
IsKw(toks, p, v) == IsTok(toks, p, "kw", v)

\* binary operators per level: <<token text, operator name>>
Level(lv) ==
  CASE lv = 1 -> {<<"kw", "OR", "or">>}
    [] lv = 2 -> {<<"kw", "AND", "and">>}
    [] lv = 4 -> {<<"op", "=", "eq">>, <<"op", "!=", "ne">>, <<"op", "<", "lt">>, <<"op", "<=", "le">>,
                  <<"op", ">", "gt">>, <<"op", ">=", "ge">>}
    [] lv = 5 -> {<<"op", "|", "bor">>}
    [] lv = 6 -> {<<"op", "^", "bxor">>}
    [] lv = 7 -> {<<"op", "&", "band">>}
    [] lv = 8 -> {<<"op", "<<", "shl">>, <<"op", ">>", "shr">>}
    [] lv = 9 -> {<<"op", "+", "add">>, <<"op", "-", "sub">>}
    [] lv = 10 -> {<<"op", "*", "mul">>, <<"op", "/", "div">>}
    [] OTHER -> {}
BinHere(toks, p, lv) == {x \in Level(lv) : IsTok(toks, p, x[1], x[2])}

Bad == [t |-> [bad |-> 1], p |-> 100000]     \* a parse failure poisons the position
R(t, p) == [t |-> t, p |-> p]

RECURSIVE PE(_, _, _), PLoop(_, _, _, _)
PE(toks, p, lv) ==
  IF p > Len(toks) THEN Bad
  ELSE IF lv = 3 THEN
     (IF IsKw(toks, p, "NOT") THEN LET r == PE(toks, p + 1, 3) IN R(Un("not", r.t), r.p) ELSE PE(toks, p, 4))
  ELSE IF lv = 11 THEN
     (IF IsOp(toks, p, "-") THEN LET r == PE(toks, p + 1, 11) IN R(Un("neg", r.t), r.p)
      ELSE IF IsOp(toks, p, "~") THEN LET r == PE(toks, p + 1, 11) IN R(Un("bitnot", r.t), r.p)
      ELSE PE(toks, p, 12))
  ELSE IF lv = 12 THEN
     (IF IsOp(toks, p, "(") THEN LET r == PE(toks, p + 1, 1) IN (IF IsOp(toks, r.p, ")") THEN R(r.t, r.p + 1) ELSE Bad)
      ELSE IF toks[p].t = "int" THEN R(Lit(IntV(toks[p].v)), p + 1)
      ELSE IF toks[p].t = "str" THEN R(Lit(StrV(toks[p].v)), p + 1)
      ELSE IF IsKw(toks, p, "NULL") THEN R(Lit(Null), p + 1)
      ELSE IF IsKw(toks, p, "TRUE") THEN R(Lit(IntV(1)), p + 1)
      ELSE IF IsKw(toks, p, "FALSE") THEN R(Lit(IntV(0)), p + 1)
      ELSE IF toks[p].t = "id" THEN R(Col(toks[p].v), p + 1)
      ELSE Bad)
  ELSE LET l == PE(toks, p, lv + 1) IN PLoop(toks, l.p, lv, l.t)
PLoop(toks, p, lv, left) ==
  LET h == BinHere(toks, p, lv) IN
  IF h = {} THEN R(left, p)
  ELSE LET x == CHOOSE y \in h : TRUE
           r == PE(toks, p + 1, lv + 1)
       IN PLoop(toks, r.p, lv, Bin(x[3], left, r.t))

\* unary minus applied to an integer literal IS the negative literal (the printer writes -5)
RECURSIVE NormE(_)
NormE(e) ==
  IF "bad" \in DOMAIN e THEN e
  ELSE IF IsLit(e) \/ IsCol(e) THEN e
  ELSE IF IsUn(e) THEN
     LET a == NormE(e.a) IN
     IF e.un = "neg" /\ IsLit(a) /\ IsInt(a.lit) /\ a.lit.i # MinI32 THEN Lit(IntV(-a.lit.i)) ELSE Un(e.un, a)
  ELSE Bin(e.bin, NormE(e.l), NormE(e.r))

ParseExpr(toks) == LET r == PE(toks, 1, 1) IN IF r.p = Len(toks) + 1 THEN NormE(r.t) ELSE [bad |-> 1]

\* --- semantic equivalence on a row space (only consulted when the trees differ) --------------
RECURSIVE LitsOf(_)
LitsOf(e) == IF "bad" \in DOMAIN e THEN {} ELSE IF IsLit(e) THEN {e.lit} ELSE IF IsCol(e) THEN {}
             ELSE IF IsUn(e) THEN LitsOf(e.a) ELSE LitsOf(e.l) \cup LitsOf(e.r)
ProbeVals == {Null, IntV(0), IntV(1), IntV(2), IntV(3), IntV(-1), IntV(MaxI32), StrV(<<120>>)}
RowsOver(names) ==
  LET n == Len(names) IN {[names |-> names, vals |-> f] : f \in [1..n -> ProbeVals]}
Equivalent(e1, e2) ==
  \/ e1 = e2
  \/ /\ "bad" \notin DOMAIN e1 /\ "bad" \notin DOMAIN e2
     /\ ColumnsOf(e1) = ColumnsOf(e2)
     /\ Cardinality(ColumnsOf(e1)) <= 3
     /\ LET names == SetToSeq(ColumnsOf(e1)) IN
        \* e1 is what the text says, e2 the construction recipe: where the recipe admits two
        \* results (overflow: null or wrapped) the built object has already taken one of them
        \A row \in RowsOver(names) : EvalSet(e1, row) \subseteq EvalSet(e2, row)

\* --- queries ---------------------------------------------------------------------------------
\* SELECT cols FROM from [WHERE e] ; from: id | ( select ) , optionally  x (INNER|LEFT) JOIN y ON e
True == Lit(IntV(1))
RECURSIVE PSelect(_, _), PTable2(_, _)
PTable2(toks, p) ==
  IF p > Len(toks) THEN Bad
  ELSE IF toks[p].t = "id" THEN R([table |-> toks[p].v], p + 1)
  ELSE IF IsOp(toks, p, "(") THEN LET r == PSelect(toks, p + 1) IN (IF IsOp(toks, r.p, ")") THEN R(r.t, r.p + 1) ELSE Bad)
  ELSE Bad
\* the expression after ON / WHERE extends to the next query keyword or unmatched ")"
ExprEnd(toks, p) ==
  LET depth(k) == Cardinality({j \in p..(k - 1) : IsOp(toks, j, "(")}) - Cardinality({j \in p..(k - 1) : IsOp(toks, j, ")")})
      stops == {k \in p..Len(toks) : depth(k) = 0 /\ (IsKw(toks, k, "WHERE") \/ IsOp(toks, k, ")"))}
  IN IF stops = {} THEN Len(toks) + 1 ELSE MinOf(stops)
PSelect(toks, p) ==
  IF ~IsKw(toks, p, "SELECT") THEN Bad
  ELSE LET fromAt == MinOf({k \in (p + 1)..Len(toks) : IsKw(toks, k, "FROM")} \cup {100000})
           cols == IF IsOp(toks, p + 1, "*") THEN <<>>
                   ELSE [k \in 1..((fromAt - p) \div 2) |-> toks[p + 2 * k - 1].v]
           l == PTable2(toks, fromAt + 1)
           joined == IsKw(toks, l.p, "INNER") \/ IsKw(toks, l.p, "LEFT")
           r == IF joined THEN PTable2(toks, l.p + 2) ELSE l
           onEnd == IF joined THEN ExprEnd(toks, r.p + 1) ELSE r.p
           on == IF joined THEN ParseExpr(SubSeq(toks, r.p + 1, onEnd - 1)) ELSE True
           from == IF joined THEN [join |-> (IF IsKw(toks, l.p, "LEFT") THEN "left" ELSE "inner"), l |-> l.t, r |-> r.t, on |-> on] ELSE l.t
           hasWhere == IsKw(toks, onEnd, "WHERE")
           wEnd == IF hasWhere THEN ExprEnd(toks, onEnd + 1) ELSE onEnd
           cond == IF hasWhere THEN ParseExpr(SubSeq(toks, onEnd + 1, wEnd - 1)) ELSE True
       IN IF fromAt = 100000 \/ "bad" \in DOMAIN l.t \/ "bad" \in DOMAIN r.t THEN Bad
          ELSE R([sel |-> from, cols |-> cols, cond |-> cond], wEnd)

\* a select of everything without condition is the thing itself
RECURSIVE NormQ(_)
NormQ(q) ==
  IF "bad" \in DOMAIN q \/ "table" \in DOMAIN q THEN q
  ELSE IF "join" \in DOMAIN q THEN [join |-> q.join, l |-> NormQ(q.l), r |-> NormQ(q.r), on |-> q.on]
  ELSE LET s == NormQ(q.sel) IN
       IF q.cols = <<>> /\ q.cond = True THEN s ELSE [sel |-> s, cols |-> q.cols, cond |-> q.cond]
RECURSIVE SameQ(_, _)
SameQ(a, b) ==
  IF "bad" \in DOMAIN a \/ "bad" \in DOMAIN b THEN FALSE
  ELSE IF "table" \in DOMAIN a THEN a = b
  ELSE IF "join" \in DOMAIN a THEN "join" \in DOMAIN b /\ a.join = b.join /\ SameQ(a.l, b.l) /\ SameQ(a.r, b.r) /\ Equivalent(a.on, b.on)
  ELSE "sel" \in DOMAIN b /\ a.cols = b.cols /\ SameQ(a.sel, b.sel) /\ Equivalent(a.cond, b.cond)

ParseSelect(toks) == LET r == PSelect(toks, 1) IN IF r.p = Len(toks) + 1 THEN NormQ(r.t) ELSE [bad |-> 1]

\* literal list  v , v , ...  between positions (values only: NULL, [-] int, string)
LitAt(toks, p) == IF IsKw(toks, p, "NULL") THEN [v |-> Null, n |-> 1]
                  ELSE IF IsOp(toks, p, "-") THEN [v |-> IntV(-toks[p + 1].v), n |-> 2]
                  ELSE IF toks[p].t = "int" THEN [v |-> IntV(toks[p].v), n |-> 1]
                  ELSE [v |-> StrV(toks[p].v), n |-> 1]
RECURSIVE LitList(_, _, _)
LitList(toks, p, stop) ==     \* literals separated by "," up to position stop (exclusive)
  IF p >= stop THEN <<>>
  ELSE LET x == LitAt(toks, p) IN <<x.v>> \o LitList(toks, p + x.n + 1, stop)
RECURSIVE RowList(_, _)
RowList(toks, p) ==           \* ( lits ) , ( lits ) ...
  IF p > Len(toks) \/ ~IsOp(toks, p, "(") THEN <<>>
  ELSE LET close == MinOf({k \in p..Len(toks) : IsOp(toks, k, ")")})
       IN <<LitList(toks, p + 1, close)>> \o RowList(toks, close + 2)
ParseInsert(toks) ==    \* INSERT INTO t [VALUES rows]
  [table |-> toks[3].v, rows |-> IF Len(toks) >= 4 THEN RowList(toks, 5) ELSE <<>>]
RECURSIVE Assigns(_, _, _)
Assigns(toks, p, stop) ==     \* c = lit , c = lit ...
  IF p >= stop THEN <<>>
  ELSE LET x == LitAt(toks, p + 2) IN <<<<toks[p].v, x.v>>>> \o Assigns(toks, p + 2 + x.n + 1, stop)
ParseUpdate(toks) ==    \* UPDATE t SET assigns [WHERE e]
  LET w == MinOf({k \in 1..Len(toks) : IsKw(toks, k, "WHERE")} \cup {Len(toks) + 1})
  IN [table |-> toks[2].v, sets |-> Assigns(toks, 4, w),
      cond |-> IF w <= Len(toks) THEN ParseExpr(SubSeq(toks, w + 1, Len(toks))) ELSE True]
ParseDelete(toks) ==    \* DELETE FROM t [WHERE e]
  [table |-> toks[3].v, cond |-> IF Len(toks) >= 4 THEN ParseExpr(SubSeq(toks, 5, Len(toks))) ELSE True]
=============================================================================
