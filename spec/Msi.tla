-------------------------------- MODULE Msi ---------------------------------
(***************************************************************************)
(* The package state machine of rust-msi.                                  *)
(*                                                                         *)
(* What is modelled like the code, because it is observable:               *)
(*  - the catalog tables _Tables/_Columns/_Validation are ordinary tables, *)
(*    so CreateTable IS three row insertions plus a registration;          *)
(*  - cells of string columns hold references into a reference-counted     *)
(*    pool with numbered slots that are freed and reused;                  *)
(*  - table streams are written through to the medium at once, while the   *)
(*    pool and the summary stream are written only by the "finisher" that  *)
(*    runs on flush / into_inner / drop (so between two saves the image on *)
(*    the medium is in general NOT decodable: an old table stream may      *)
(*    resolve through a stale pool);                                       *)
(*  - user streams are written through.                                    *)
(*                                                                         *)
(* Every operation has two definitions:                                    *)
(*   XxxSpec(args, res)  the SPECIFICATION: a relation between the state   *)
(*                       before and after, leaving pool allocation free    *)
(*                       (used as it is for validating recorded traces);   *)
(*   Xxx(args)           an executable refinement with a deterministic     *)
(*                       allocation strategy (used by the bounded models,  *)
(*                       which check it against XxxSpec on every step).    *)
(***************************************************************************)
EXTENDS Query, Pool, StreamName, TLC

CONSTANTS MaxRows,         \* 65536 in the library's reader; scaled in bounded models
          ExactPool,       \* TRUE: packages written by the library (exact reference counts);
                           \* FALSE: files of other writers may over-count (C02)
          AsIs             \* set of NAMED DEVIATIONS of the executable model: behaviours the pinned code had
                           \* before it was repaired.  {} in every check; bin/selftest switches them on one at
                           \* a time to show that TLC then finds the corresponding property violated
                           \* (the properties are not vacuous in the bounded models)

VARIABLES
  schemas,   \* in memory: table name -> column list (catalog tables included)
  tstream,   \* on the medium, written through: table name -> rows of CELLS
  pool,      \* in memory string pool
  cp,        \* in memory database code page id
  summary,   \* in memory summary information (field -> value)
  dirty,     \* [fin, sum, pool : BOOLEAN]  finisher installed / modified flags
  dpool,     \* on the medium: [cp |-> id, e |-> pool entries]
  dsum,      \* on the medium: summary information
  ustreams,  \* on the medium, written through: stream name -> contents
  sess,      \* "open" | "closed"
  ptype,     \* package type
  ro,        \* TRUE while the session has only opened the package and read from it
  msync,     \* TRUE when nothing was written to the medium since the medium itself was last flushed
             \* (a medium may defer writes until flush(): C15, C01).  It splits states so that a Flush
             \* is explored - and replayed with its real history - after unflushed writes too.
  hist       \* bookkeeping only (hidden by VIEW): [path, last]

vars == <<schemas, tstream, pool, cp, summary, dirty, dpool, dsum, ustreams, sess, ptype, ro, msync, hist>>
view == <<schemas, tstream, pool, cp, summary, dirty, dpool, dsum, ustreams, sess, ptype, ro, msync>>

True == Lit(IntV(1))       \* the condition of a statement without WHERE

\* The scaled row limit applies to user tables; the catalog tables keep the real one.
RowLimit(t) == IF Reserved(t) THEN 65536 ELSE MaxRows

-----------------------------------------------------------------------------
\* Derived views.

\* DOMAIN tstream is the set of table streams that EXIST in the container; a table without a
\* stream is empty (a new table has none until its first statement; an emptied table keeps one).
TsGet(ts, t) == IF t \in DOMAIN ts THEN ts[t] ELSE <<>>
TsSet(ts, t, rows) == [x \in DOMAIN ts \cup {t} |-> IF x = t THEN rows ELSE ts[x]]
TsDel(ts, t) == [x \in DOMAIN ts \ {t} |-> ts[x]]
RowsIn(p, ts, t) == IF t \in DOMAIN ts THEN ResolveRows(p, ts[t]) ELSE <<>>
Rows(t) == RowsIn(pool, tstream, t)                \* what the API reports
AllRowsOf(ts) ==
  FoldSet(LAMBDA t, acc : acc \o ts[t], <<>>, DOMAIN ts)
MemWF == PoolWF(pool, AllRowsOf(tstream))          \* exact accounting in memory

\* The abstract, user-visible state (values, not references).
SIG == <<-1>>      \* key of the digital-signature stream inside ustreams: never listed as a stream
AbsOf(sc, ts, p, c, sm, us, pt) ==
  [ptype |-> pt, cp |-> c, summary |-> sm, streams |-> [n \in DOMAIN us \ {SIG} |-> us[n]], sig |-> SIG \in DOMAIN us,
   tables |-> Strict([t \in DOMAIN sc |-> [cols |-> sc[t], rows |-> RowsIn(p, ts, t)]])]
Abs == AbsOf(schemas, tstream, pool, cp, summary, ustreams, ptype)

\* Schemas as a reader reconstructs them from the catalog tables of an image.
DecodeSchemas(ts, p) ==
  LET trows == RowsIn(p, ts, N_Tables)
      crows == RowsIn(p, ts, N_Columns)
      vrows == RowsIn(p, ts, N_Validation)
      names == {trows[k][1].s : k \in 1..Len(trows)}
      VRow(t, c) == LET m == {k \in 1..Len(vrows) : vrows[k][1] = StrV(t) /\ vrows[k][2] = StrV(c)}
                    IN IF m = {} THEN <<>> ELSE vrows[MinOf(m)]
      CRows(t) == SortSeq(SelectSeq(crows, LAMBDA r : r[1] = StrV(t)), LAMBDA a, b : a[2].i < b[2].i)
      ColsOf(t) == LET cr == CRows(t) IN Strict([k \in 1..Len(cr) |-> FromCatalog(cr[k], VRow(t, cr[k][3].s))])
  IN Strict([t \in names \cup {N_Tables, N_Columns} |->
        IF t = N_Tables THEN TablesCols ELSE IF t = N_Columns THEN ColumnsCols ELSE ColsOf(t)])

\* What opening the bytes on the medium yields (the image decoded on its own).
Loaded ==
  LET sc == DecodeSchemas(tstream, dpool.e)
  IN AbsOf(sc, tstream, dpool.e, dpool.cp, dsum, ustreams, ptype)

ObsEq(a, b) == a = b     \* rows held in cells are already normalised ("" = null)

-----------------------------------------------------------------------------
\* Pure cell-level statement execution on a local record st = [pool, ts].

St0 == [pool |-> pool, ts |-> tstream]
SortCells(cols, p, rows) ==
  LET keyed  == Strict([k \in 1..Len(rows) |-> <<KeyOf(cols, ResolveRow(p, rows[k])), rows[k]>>])
      sorted == SortSeq(keyed, LAMBDA x, y : KeyLess(x[1], y[1]))
  IN Strict([k \in 1..Len(rows) |-> sorted[k][2]])

DoInsert(st, t, cols, new) ==
  LET cur == RowsIn(st.pool, st.ts, t)
  IN IF RowsValid(cols, new) # "yes" \/ ~KeysDistinct(cols, cur \o NormRows(new)) THEN Err
     ELSE LET x == InternRows(st.pool, new)
              all == TsGet(st.ts, t) \o x.rows
          IN IF Len(all) > RowLimit(t) \/ Len(x.pool) > MaxRefs THEN Err
             ELSE Ok([pool |-> x.pool, ts |-> TsSet(st.ts, t, SortCells(cols, x.pool, all))])

DoDelete(st, t, cols, cond) ==
  IF ~KnownCols(cols, cond) THEN Err
  ELSE LET hit(r) == Holds(cond, RowOf(cols, ResolveRow(st.pool, r)))
           gone == SelectSeq(TsGet(st.ts, t), hit)
           kept == SelectSeq(TsGet(st.ts, t), LAMBDA r : ~hit(r))
       IN Ok([pool |-> ReleaseRows(st.pool, gone), ts |-> TsSet(st.ts, t, kept)])

\* one row: release the old cell and intern the new value, assignment by assignment
UpdRow(cols, p, row, sets) ==
  FoldLeft(LAMBDA acc, sv :
             LET j == ColIndex(cols, sv[1])
                 p1 == IF IsRef(acc.row[j]) THEN Decref(acc.pool, acc.row[j].r) ELSE acc.pool
                 x == InternRow(p1, <<sv[2]>>)
             IN [pool |-> x.pool, row |-> [acc.row EXCEPT ![j] = x.cells[1]]],
           [pool |-> p, row |-> row], sets)

DoUpdate(st, t, cols, sets, cond) ==
  LET v == IF "UpdateNoRekey" \in AsIs /\ SetsValid(cols, sets) = "yes" /\ KnownCols(cols, cond) THEN Ok(<<>>)
           ELSE UpdateV(cols, RowsIn(st.pool, st.ts, t), sets, cond)
  IN IF IsErr(v) THEN Err
     ELSE LET x == FoldLeft(LAMBDA acc, row :
                               IF Holds(cond, RowOf(cols, ResolveRow(st.pool, row)))
                               THEN LET u == UpdRow(cols, acc.pool, row, sets)
                                    IN [pool |-> u.pool, rows |-> Append(acc.rows, u.row)]
                               ELSE [pool |-> acc.pool, rows |-> Append(acc.rows, row)],
                             [pool |-> st.pool, rows |-> <<>>], TsGet(st.ts, t))
          IN IF Len(x.pool) > MaxRefs THEN Err
             ELSE Ok([pool |-> x.pool, ts |-> TsSet(st.ts, t, IF "UpdateNoRekey" \in AsIs THEN x.rows ELSE SortCells(cols, x.pool, x.rows))])

TableIs(t) == Bin("eq", Col(N_Table), Lit(StrV(t)))
NameIs(t)  == Bin("eq", Col(N_Name), Lit(StrV(t)))

ColumnsRows(t, cols)    == Strict([k \in 1..Len(cols) |-> ColumnsRow(t, k, cols[k])])
ValidationRows(t, cols) == Strict([k \in 1..Len(cols) |-> ValidationRow(t, cols[k])])

CreateAccepted(t, cols) ==
  /\ CreateOK(t, cols)
  /\ t \notin DOMAIN schemas
  /\ \A k \in 1..Len(cols) : Representable(t, cols[k])

DoCreate(st, t, cols, hasV) ==
  LET a == DoInsert(st, N_Columns, ColumnsCols, ColumnsRows(t, cols))
      b == IF IsErr(a) THEN Err ELSE DoInsert(a.ok, N_Tables, TablesCols, <<<<StrV(t)>>>>)
      c == IF IsErr(b) THEN Err
           ELSE IF hasV
                THEN DoInsert(b.ok, N_Validation, ValidationCols, ValidationRows(t, cols))
                ELSE b
  IN c

DoDrop(st, t) ==
  LET p1 == IF "DropLeaky" \in AsIs THEN st.pool ELSE ReleaseRows(st.pool, TsGet(st.ts, t))
      s1 == [pool |-> p1, ts |-> TsDel(st.ts, t)]
      a == IF N_Validation \in DOMAIN s1.ts THEN DoDelete(s1, N_Validation, ValidationCols, TableIs(t)).ok ELSE s1
      b == DoDelete(a, N_Columns, ColumnsCols, TableIs(t)).ok
  IN DoDelete(b, N_Tables, TablesCols, NameIs(t)).ok

-----------------------------------------------------------------------------
\* Bookkeeping.

Ev(op, args, res) == [op |-> op, args |-> args, res |-> res]
Log(op, args, res) == hist' = [path |-> Append(hist.path, hist.last), last |-> Ev(op, args, res)]

Open == sess = "open"
Touch == [dirty EXCEPT !.fin = TRUE]
DiskSame == UNCHANGED <<dpool, dsum>>
Rest == UNCHANGED <<cp, summary, ustreams, sess, ptype>> /\ ro' = FALSE

Rejected(op, args) ==      \* a refused call changes nothing (C04); the finisher bit is not observable
  /\ UNCHANGED <<schemas, tstream, pool, msync>> /\ DiskSame /\ Rest
  /\ dirty' = Touch
  /\ Log(op, args, "Err")

Applied(op, args, st) ==   \* a table operation that produced the local state st
  /\ tstream' = st.ts /\ pool' = st.pool
  /\ dirty' = [dirty EXCEPT !.fin = TRUE, !.pool = @ \/ st.pool # pool]
  /\ DiskSame /\ Rest /\ msync' = FALSE           \* statements write the table stream straight through
  /\ Log(op, args, "Ok")

-----------------------------------------------------------------------------
\* Executable actions (deterministic allocation strategy).

CreateTable(t, cols) ==
  /\ Open
  /\ LET r == IF CreateAccepted(t, cols) THEN DoCreate(St0, t, cols, N_Validation \in DOMAIN schemas) ELSE Err
     IN IF IsErr(r) /\ "CreateHalf" \in AsIs /\ CreateOK(t, cols) /\ t \notin DOMAIN schemas
        THEN LET a == DoInsert(St0, N_Columns, ColumnsCols, ColumnsRows(t, cols))
                 b == IF IsErr(a) THEN Err ELSE DoInsert(a.ok, N_Tables, TablesCols, <<<<StrV(t)>>>>)
             IN IF IsErr(b) THEN UNCHANGED schemas /\ Rejected("CreateTable", [table |-> t, cols |-> cols])
                ELSE /\ schemas' = [x \in DOMAIN schemas \cup {t} |-> IF x = t THEN cols ELSE schemas[x]]
                     /\ tstream' = b.ok.ts /\ pool' = b.ok.pool
                     /\ dirty' = [dirty EXCEPT !.fin = TRUE, !.pool = TRUE] /\ DiskSame /\ Rest /\ msync' = FALSE
                     /\ Log("CreateTable", [table |-> t, cols |-> cols], "Err")
        ELSE IF IsErr(r) THEN UNCHANGED schemas /\ Rejected("CreateTable", [table |-> t, cols |-> cols])
        ELSE /\ schemas' = [x \in DOMAIN schemas \cup {t} |-> IF x = t THEN cols ELSE schemas[x]]
             /\ Applied("CreateTable", [table |-> t, cols |-> cols], r.ok)

DropTable(t) ==
  /\ Open
  /\ IF Reserved(t) \/ ~NameOK(t) \/ t \notin DOMAIN schemas
     THEN Rejected("DropTable", [table |-> t])
     ELSE /\ schemas' = [x \in DOMAIN schemas \ {t} |-> schemas[x]]
          /\ Applied("DropTable", [table |-> t], DoDrop(St0, t))

Insert(t, new) ==
  /\ Open
  /\ LET r == IF t \in DOMAIN schemas THEN DoInsert(St0, t, schemas[t], new) ELSE Err
     IN IF IsErr(r) THEN Rejected("Insert", [table |-> t, rows |-> new])
        ELSE UNCHANGED schemas /\ Applied("Insert", [table |-> t, rows |-> new], r.ok)

Update(t, sets, cond) ==
  /\ Open
  /\ LET r == IF t \in DOMAIN schemas THEN DoUpdate(St0, t, schemas[t], sets, cond) ELSE Err
     IN IF IsErr(r) THEN Rejected("Update", [table |-> t, sets |-> sets, cond |-> cond])
        ELSE UNCHANGED schemas /\ Applied("Update", [table |-> t, sets |-> sets, cond |-> cond], r.ok)

Delete(t, cond) ==
  /\ Open
  /\ LET r == IF t \in DOMAIN schemas THEN DoDelete(St0, t, schemas[t], cond) ELSE Err
     IN IF IsErr(r) THEN Rejected("Delete", [table |-> t, cond |-> cond])
        ELSE UNCHANGED schemas /\ Applied("Delete", [table |-> t, cond |-> cond], r.ok)

SetCodepage(c) ==
  /\ Open
  /\ cp' = c /\ dirty' = [dirty EXCEPT !.fin = TRUE, !.pool = TRUE]
  /\ UNCHANGED <<schemas, tstream, pool, summary, ustreams, sess, ptype, msync>> /\ DiskSame /\ ro' = FALSE
  /\ Log("SetCodepage", [cp |-> c], "Ok")

SetSummary(f, v) ==
  /\ Open
  /\ summary' = [summary EXCEPT ![f] = v]
  /\ dirty' = [dirty EXCEPT !.fin = TRUE, !.sum = TRUE]
  /\ UNCHANGED <<schemas, tstream, pool, cp, ustreams, sess, ptype, msync>> /\ DiskSame /\ ro' = FALSE
  /\ Log("SetSummary", [field |-> f, value |-> v], "Ok")

WriteStream(n, c) ==      \* refused names change nothing (C04, C11)
  /\ Open
  /\ IF StreamNameOK(n)
     THEN /\ ustreams' = [x \in DOMAIN ustreams \cup {n} |-> IF x = n THEN c ELSE ustreams[x]]
          /\ msync' = TRUE                     \* the stream writer is flushed, which flushes the container and the medium
          /\ Log("WriteStream", [name |-> n, data |-> c], "Ok")
     ELSE /\ UNCHANGED <<ustreams, msync>> /\ Log("WriteStream", [name |-> n, data |-> c], "Err")
  /\ UNCHANGED <<schemas, tstream, pool, cp, summary, dirty, sess, ptype>> /\ DiskSame /\ ro' = FALSE

RemoveStream(n) ==
  /\ Open
  /\ IF StreamNameOK(n) /\ n \in DOMAIN ustreams
     THEN /\ ustreams' = [x \in DOMAIN ustreams \ {n} |-> ustreams[x]]
          /\ msync' = FALSE                    \* the directory is rewritten, nothing is flushed
          /\ Log("RemoveStream", [name |-> n], "Ok")
     ELSE /\ UNCHANGED <<ustreams, msync>> /\ Log("RemoveStream", [name |-> n], "Err")
  /\ UNCHANGED <<schemas, tstream, pool, cp, summary, dirty, sess, ptype>> /\ DiskSame /\ ro' = FALSE

ReadStream(n) ==          \* Ok exactly for live, acceptable names; never for the special streams
  /\ Open
  /\ Log("ReadStream", [name |-> n], IF StreamNameOK(n) /\ n \in DOMAIN ustreams THEN "Ok" ELSE "Err")
  /\ UNCHANGED <<schemas, tstream, pool, cp, summary, dirty, ustreams, sess, ptype, ro, msync>> /\ DiskSame

RemoveSignature ==        \* removes only the signature
  /\ Open
  /\ ustreams' = [x \in DOMAIN ustreams \ {SIG} |-> ustreams[x]]
  /\ UNCHANGED <<schemas, tstream, pool, cp, summary, dirty, sess, ptype>> /\ DiskSame /\ ro' = FALSE
  /\ msync' = (msync /\ SIG \notin DOMAIN ustreams)
  /\ Log("RemoveSignature", [x |-> 0], "Ok")

\* a signing tool adds the signature stream to the closed file (outside the library)
AddSignature ==
  /\ sess = "closed" /\ SIG \notin DOMAIN ustreams
  /\ ustreams' = [x \in DOMAIN ustreams \cup {SIG} |-> IF x = SIG THEN "sig" ELSE ustreams[x]]
  /\ UNCHANGED <<schemas, tstream, pool, cp, summary, dirty, sess, ptype, ro, msync>> /\ DiskSame
  /\ Log("AddSignature", [x |-> 0], "Ok")

\* The finisher: writes the summary stream and the pool streams if modified.
Finish ==
  /\ dsum'  = IF dirty.fin /\ dirty.sum  THEN summary ELSE dsum
  /\ dpool' = IF dirty.fin /\ dirty.pool /\ "FinisherSkipsPool" \notin AsIs THEN [cp |-> cp, e |-> pool] ELSE dpool
  /\ dirty' = IF dirty.fin THEN [fin |-> FALSE, sum |-> FALSE, pool |-> FALSE] ELSE dirty

Close(op, s2) ==
  /\ Open /\ Finish /\ sess' = s2
  /\ UNCHANGED <<schemas, tstream, pool, cp, summary, ustreams, ptype, ro>>
  /\ msync' = TRUE                               \* a successful flush flushes the medium (C15); a closed medium is handed back
  /\ Log(op, [x |-> 0], "Ok")
Flush     == Close("Flush", "open")
IntoInner == Close("IntoInner", "closed")
DropPkg   == Close("DropPkg", "closed")

\* Opening the bytes on the medium.  Unused entries are empty in memory even if the file (written by
\* another tool) still carries their stale text.
NormPool(p) == [k \in 1..Len(p) |-> IF p[k].rc = 0 THEN Free ELSE p[k]]
Load(op) ==
  /\ schemas' = DecodeSchemas(tstream, dpool.e)
  /\ pool' = NormPool(dpool.e) /\ cp' = dpool.cp /\ summary' = dsum
  /\ dirty' = [fin |-> FALSE, sum |-> FALSE, pool |-> FALSE]
  /\ sess' = "open" /\ ro' = TRUE /\ msync' = TRUE
  /\ UNCHANGED <<tstream, ustreams, ptype>> /\ DiskSame
  /\ Log(op, [x |-> 0], "Ok")
Reopen == sess = "closed" /\ Load("Reopen")
\* A crash right after a flush that returned Ok: memory is lost, the bytes remain.
Crash  == Open /\ hist.last.op = "Flush" /\ hist.last.res = "Ok" /\ Load("Crash")

-----------------------------------------------------------------------------
(***************************************************************************)
(* The SPECIFICATION of each step, as a predicate on (s, event, s1) where  *)
(* s and s1 are records of the state before and after.  It does not fix    *)
(* the allocation strategy: any pool with exact accounting that yields the *)
(* right values is accepted.                                               *)
(*                                                                         *)
(* (The predicates take explicit state records instead of priming defined  *)
(* operators: TLC switches off the caching of LET definitions and operator *)
(* arguments inside a primed expression, which makes Abs' exponential.)    *)
(***************************************************************************)
Cur == [schemas |-> schemas, tstream |-> tstream, pool |-> pool, cp |-> cp, summary |-> summary,
        dirty |-> dirty, dpool |-> dpool, dsum |-> dsum, ustreams |-> ustreams, sess |-> sess, ptype |-> ptype]
Nxt == [schemas |-> schemas', tstream |-> tstream', pool |-> pool', cp |-> cp', summary |-> summary',
        dirty |-> dirty', dpool |-> dpool', dsum |-> dsum', ustreams |-> ustreams', sess |-> sess', ptype |-> ptype']

RowsS(s, t)  == RowsIn(s.pool, s.tstream, t)
AbsS(s)      == AbsOf(s.schemas, s.tstream, s.pool, s.cp, s.summary, s.ustreams, s.ptype)
LoadedS(s)   == AbsOf(DecodeSchemas(s.tstream, s.dpool.e), s.tstream, s.dpool.e, s.dpool.cp, s.dsum, s.ustreams, s.ptype)
MemWFS(s)    == IF ExactPool THEN PoolWF(s.pool, AllRowsOf(s.tstream)) ELSE PoolLoose(s.pool, AllRowsOf(s.tstream))

Same(s, s1, fields) == \A f \in fields : s1[f] = s[f]
Medium   == {"dpool", "dsum"}
Others   == {"cp", "summary", "ustreams", "sess", "ptype"}
AllButDirty == {"schemas", "tstream", "pool"} \cup Medium \cup Others

UnchangedT(s, s1, S) ==
  \A t \in S : /\ (t \in DOMAIN s1.tstream) = (t \in DOMAIN s.tstream)
               /\ TsGet(s1.tstream, t) = TsGet(s.tstream, t)
               /\ RowsS(s1, t) = RowsS(s, t)
DirtyMono(s, s1) ==
  /\ s1.dirty.fin /\ (s.dirty.sum => s1.dirty.sum) /\ (s.dirty.pool => s1.dirty.pool)
  /\ (s1.pool # s.pool => s1.dirty.pool) /\ (s1.summary # s.summary => s1.dirty.sum)
  /\ (s1.cp # s.cp => s1.dirty.pool)
NothingChanged(s, s1) ==
  /\ Same(s, s1, AllButDirty)
  /\ (s.dirty.sum => s1.dirty.sum) /\ (s.dirty.pool => s1.dirty.pool) /\ (s.dirty.fin => s1.dirty.fin)
TableStep(s, s1, t, newrows) ==    \* only table t changes, to exactly newrows
  /\ Same(s, s1, {"schemas"} \cup Medium \cup Others)
  /\ DOMAIN s1.tstream = DOMAIN s.tstream \cup {t}       \* the statement (re)writes the table's stream
  /\ RowsS(s1, t) = newrows
  /\ UnchangedT(s, s1, DOMAIN s.schemas \ {t})
  /\ MemWFS(s1) /\ DirtyMono(s, s1)

WithinCapacity(s1) == /\ \A t \in DOMAIN s1.tstream : Len(s1.tstream[t]) <= RowLimit(t)
                      /\ Len(s1.pool) <= MaxRefs
MayExceed(s, t, nrows, nstrings) ==
  Len(TsGet(s.tstream, t)) + nrows > RowLimit(t) \/ Len(s.pool) + nstrings > MaxRefs
StrCount(rows) == FoldLeft(LAMBDA n, r : n + Cardinality({j \in 1..Len(r) : IsStr(r[j]) /\ r[j].s # <<>>}), 0, rows)

InsertSpec(s, a, res, s1) ==
  LET t == a.table
      known == t \in DOMAIN s.schemas
      cols == s.schemas[t]
      v == RowsValid(cols, a.rows)
      all == RowsS(s, t) \o NormRows(a.rows)
  IN \/ /\ res = "Ok" /\ known /\ v # "no" /\ KeysDistinct(cols, all)
        /\ TableStep(s, s1, t, SortByKey(cols, all)) /\ WithinCapacity(s1)
     \/ /\ res = "Err" /\ NothingChanged(s, s1)
        /\ (~known \/ v # "yes" \/ ~KeysDistinct(cols, all) \/ MayExceed(s, t, Len(a.rows), StrCount(a.rows)))

UpdateSpec(s, a, res, s1) ==
  LET t == a.table
      known == t \in DOMAIN s.schemas
      cols == s.schemas[t]
      rows == RowsS(s, t)
      sv == SetsValid(cols, a.sets)
      r == UpdateV(cols, rows, a.sets, a.cond)      \* Err unless sv = "yes"
      lenient == Strict([k \in 1..Len(rows) |->
                    IF Holds(a.cond, RowOf(cols, rows[k])) THEN ApplySets(cols, rows[k], a.sets) ELSE rows[k]])
  IN \/ /\ res = "Ok" /\ known /\ sv # "no" /\ KnownCols(cols, a.cond) /\ KeysDistinct(cols, lenient)
        /\ TableStep(s, s1, t, SortByKey(cols, lenient)) /\ WithinCapacity(s1)
     \/ /\ res = "Err" /\ NothingChanged(s, s1)
        /\ (~known \/ IsErr(r) \/ MayExceed(s, t, 0, Len(rows) * Len(a.sets)))

DeleteSpec(s, a, res, s1) ==
  LET t == a.table
      known == t \in DOMAIN s.schemas
      r == DeleteV(s.schemas[t], RowsS(s, t), a.cond)
  IN \/ res = "Ok" /\ known /\ ~IsErr(r) /\ TableStep(s, s1, t, r.ok)
     \/ res = "Err" /\ NothingChanged(s, s1) /\ (~known \/ IsErr(r))

CreateAcceptedS(s, t, cols) ==
  /\ CreateOK(t, cols) /\ t \notin DOMAIN s.schemas
  /\ \A k \in 1..Len(cols) : Representable(t, cols[k])

\* the catalog of a database written by another tool may still describe, in _Columns or _Validation, a table that
\* _Tables does not list: creating a table of that name would collide with those rows and is refused as a whole
CatalogMentions(s, t) ==
  \/ \E k \in 1..Len(RowsS(s, N_Columns)) : RowsS(s, N_Columns)[k][1] = StrV(t)
  \/ (N_Validation \in DOMAIN s.schemas /\ \E k \in 1..Len(RowsS(s, N_Validation)) : RowsS(s, N_Validation)[k][1] = StrV(t))
CreateSpec(s, a, res, s1) ==
  LET t == a.table cols == a.cols
      sc2 == [x \in DOMAIN s.schemas \cup {t} |-> IF x = t THEN cols ELSE s.schemas[x]]
      others == DOMAIN s.schemas \ {N_Tables, N_Columns, N_Validation}
  IN \/ /\ res = "Ok" /\ CreateAcceptedS(s, t, cols) /\ ~CatalogMentions(s, t)
        /\ s1.schemas = sc2
        /\ Same(s, s1, Medium \cup Others)
        /\ DOMAIN s1.tstream = DOMAIN s.tstream \cup ({N_Tables, N_Columns, N_Validation} \cap DOMAIN s.schemas)
        /\ UnchangedT(s, s1, others)
        /\ RowsS(s1, N_Columns) = SortByKey(ColumnsCols, RowsS(s, N_Columns) \o ColumnsRows(t, cols))
        /\ RowsS(s1, N_Tables)  = SortByKey(TablesCols, RowsS(s, N_Tables) \o <<<<StrV(t)>>>>)
        /\ (N_Validation \in DOMAIN s.schemas =>
              RowsS(s1, N_Validation)
                 = SortByKey(ValidationCols, RowsS(s, N_Validation) \o NormRows(ValidationRows(t, cols))))
        /\ MemWFS(s1) /\ DirtyMono(s, s1) /\ WithinCapacity(s1)
     \/ /\ res = "Err" /\ NothingChanged(s, s1)
        /\ (~CreateAcceptedS(s, t, cols) \/ CatalogMentions(s, t) \/ MayExceed(s, N_Columns, Len(cols), 12 * Len(cols)))

DropSpec(s, a, res, s1) ==
  LET t == a.table
      ok == ~Reserved(t) /\ NameOK(t) /\ t \in DOMAIN s.schemas
      gone(cols, rows, cond) == DeleteV(cols, rows, cond).ok
  IN \/ /\ res = "Ok" /\ ok
        /\ s1.schemas = [x \in DOMAIN s.schemas \ {t} |-> s.schemas[x]]
        /\ Same(s, s1, Medium \cup Others)
        /\ DOMAIN s1.tstream = (DOMAIN s.tstream \ {t}) \cup ({N_Tables, N_Columns, N_Validation} \cap DOMAIN s.schemas)
        /\ UnchangedT(s, s1, DOMAIN s.schemas \ {t, N_Tables, N_Columns, N_Validation})
        /\ RowsS(s1, N_Columns) = gone(ColumnsCols, RowsS(s, N_Columns), TableIs(t))
        /\ RowsS(s1, N_Tables)  = gone(TablesCols, RowsS(s, N_Tables), NameIs(t))
        /\ (N_Validation \in DOMAIN s.schemas =>
              RowsS(s1, N_Validation) = gone(ValidationCols, RowsS(s, N_Validation), TableIs(t)))
        /\ MemWFS(s1) /\ DirtyMono(s, s1)
     \/ res = "Err" /\ ~ok /\ NothingChanged(s, s1)

SetCodepageSpec(s, a, res, s1) ==
  /\ res = "Ok" /\ s1.cp = a.cp /\ s1.dirty.fin /\ s1.dirty.pool /\ (s.dirty.sum => s1.dirty.sum)
  /\ Same(s, s1, {"schemas", "tstream", "pool", "summary", "ustreams", "sess", "ptype"} \cup Medium)

SetSummarySpec(s, a, res, s1) ==
  /\ res = "Ok" /\ s1.summary = [s.summary EXCEPT ![a.field] = a.value]
  /\ s1.dirty.fin /\ s1.dirty.sum /\ (s.dirty.pool => s1.dirty.pool)
  /\ Same(s, s1, {"schemas", "tstream", "pool", "cp", "ustreams", "sess", "ptype"} \cup Medium)

StreamFrame == {"schemas", "tstream", "pool", "cp", "summary", "dirty", "sess", "ptype"} \cup Medium
WriteStreamSpec(s, a, res, s1) ==
  /\ Same(s, s1, StreamFrame)
  /\ \/ /\ res = "Ok" /\ StreamNameOK(a.name)
        /\ s1.ustreams = [x \in DOMAIN s.ustreams \cup {a.name} |-> IF x = a.name THEN a.data ELSE s.ustreams[x]]
     \/ res = "Err" /\ ~StreamNameOK(a.name) /\ s1.ustreams = s.ustreams

RemoveStreamSpec(s, a, res, s1) ==
  /\ Same(s, s1, StreamFrame)
  /\ \/ /\ res = "Ok" /\ StreamNameOK(a.name) /\ a.name \in DOMAIN s.ustreams
        /\ s1.ustreams = [x \in DOMAIN s.ustreams \ {a.name} |-> s.ustreams[x]]
     \/ res = "Err" /\ ~(StreamNameOK(a.name) /\ a.name \in DOMAIN s.ustreams) /\ s1.ustreams = s.ustreams

ReadStreamSpec(s, a, res, s1) ==
  /\ Same(s, s1, StreamFrame \cup {"ustreams"})
  /\ res = (IF StreamNameOK(a.name) /\ a.name \in DOMAIN s.ustreams THEN "Ok" ELSE "Err")

RemoveSignatureSpec(s, a, res, s1) ==
  /\ res = "Ok" /\ Same(s, s1, StreamFrame)
  /\ s1.ustreams = [x \in DOMAIN s.ustreams \ {SIG} |-> s.ustreams[x]]

AddSignatureSpec(s, a, res, s1) ==
  /\ res = "Ok" /\ Same(s, s1, StreamFrame)
  /\ s1.ustreams = [x \in DOMAIN s.ustreams \cup {SIG} |-> IF x = SIG THEN "sig" ELSE s.ustreams[x]]

\* C01/C15: after a close that returned Ok the medium holds exactly what was
\* observable just before; nothing else moves.
CloseSpec(s, s2, res, s1) ==
  /\ res = "Ok" /\ s1.sess = s2
  /\ Same(s, s1, {"schemas", "tstream", "pool", "cp", "summary", "ustreams", "ptype"})
  /\ ~s1.dirty.fin /\ ~s1.dirty.sum /\ ~s1.dirty.pool
  /\ s1.dsum  = IF s.dirty.fin /\ s.dirty.sum  THEN s.summary ELSE s.dsum
  /\ s1.dpool = IF s.dirty.fin /\ s.dirty.pool THEN [cp |-> s.cp, e |-> s.pool] ELSE s.dpool
  /\ LoadedS(s1) = AbsS(s)

LoadSpec(s, res, s1) ==
  /\ res = "Ok" /\ s1.sess = "open"
  /\ Same(s, s1, {"tstream", "ustreams", "ptype"} \cup Medium)
  /\ s1.pool = NormPool(s.dpool.e) /\ s1.cp = s.dpool.cp /\ s1.summary = s.dsum
  /\ s1.schemas = DecodeSchemas(s.tstream, s.dpool.e)
  /\ ~s1.dirty.fin /\ ~s1.dirty.sum /\ ~s1.dirty.pool

StepOK(s, e, s1) ==
  LET a == e.args r == e.res IN
  CASE e.op = "Insert"      -> InsertSpec(s, a, r, s1)
    [] e.op = "Update"      -> UpdateSpec(s, a, r, s1)
    [] e.op = "Delete"      -> DeleteSpec(s, a, r, s1)
    [] e.op = "CreateTable" -> CreateSpec(s, a, r, s1)
    [] e.op = "DropTable"   -> DropSpec(s, a, r, s1)
    [] e.op = "SetCodepage" -> SetCodepageSpec(s, a, r, s1)
    [] e.op = "SetSummary"  -> SetSummarySpec(s, a, r, s1)
    [] e.op = "WriteStream" -> WriteStreamSpec(s, a, r, s1)
    [] e.op = "RemoveStream" -> RemoveStreamSpec(s, a, r, s1)
    [] e.op = "ReadStream"   -> ReadStreamSpec(s, a, r, s1)
    [] e.op = "RemoveSignature" -> RemoveSignatureSpec(s, a, r, s1)
    [] e.op = "AddSignature" -> AddSignatureSpec(s, a, r, s1)
    [] e.op = "Flush"       -> CloseSpec(s, "open", r, s1)
    [] e.op \in {"IntoInner", "DropPkg"} -> CloseSpec(s, "closed", r, s1)
    [] e.op \in {"Reopen", "Crash"} -> LoadSpec(s, r, s1)

\* every step of the executable model satisfies the specification
Refines == [][StepOK(Cur, hist'.last, Nxt)]_view

-----------------------------------------------------------------------------
\* Properties (names as in DESIGN.md).

CleanS(s) == ~s.dirty.fin
Clean == CleanS(Cur)
FlagsSane == Clean => ~dirty.sum /\ ~dirty.pool
\* C01: at every clean point the medium alone yields the observable state
CleanIsDurable == Clean => LoadedS(Cur) = AbsS(Cur)
\* C08: exact accounting in memory always, and in the image at clean points
Accounting == MemWF /\ (Clean => dpool.e = pool /\ dpool.cp = cp)
\* C05: unique ascending keys, valid cells
KeysOKS(s) == \A t \in DOMAIN s.schemas :
            LET rows == RowsS(s, t) IN KeysDistinct(s.schemas[t], rows) /\ Ascending(s.schemas[t], rows)
CellsOKS(s) == \A t \in DOMAIN s.schemas : LET rows == RowsS(s, t) IN
            \A k \in 1..Len(rows) : \A j \in 1..Len(s.schemas[t]) : CellOK(s.schemas[t][j], rows[k][j])
KeysOK == KeysOKS(Cur)
CellsOK == CellsOKS(Cur)
\* C08/C06: the catalog describes exactly the tables in memory
CatalogOKS(s) == DecodeSchemas(s.tstream, s.pool) = s.schemas
CatalogOK == CatalogOKS(Cur)
\* C20: what was saved can be read again (within the limits)
LimitsS(s) == /\ \A t \in DOMAIN s.tstream : Len(s.tstream[t]) <= RowLimit(t)
              /\ Len(s.pool) <= MaxRefs
              /\ \A t \in DOMAIN s.schemas : Reserved(t) \/ Len(s.schemas[t]) <= MaxCols
Limits == LimitsS(Cur)
\* C04: a refused call leaves every observable unchanged
AtomicStep(s, e, s1) == e.res = "Err" =>
   (AbsS(s1) = AbsS(s) /\ LoadedS(s1) = LoadedS(s) /\ s1.pool = s.pool /\ s1.tstream = s.tstream)
Atomic == [][AtomicStep(Cur, hist'.last, Nxt)]_view
\* C03: tables not named by the statement are untouched
FrameStep(s, e, s1) ==
  \A t \in DOMAIN s.schemas \cap DOMAIN s1.schemas :
     (e.op \in {"Insert", "Update", "Delete"} /\ t # e.args.table) => RowsS(s1, t) = RowsS(s, t)
Frame == [][FrameStep(Cur, hist'.last, Nxt)]_view
\* C01: closing persists what was observable just before closing
CloseReopenStep(s, e, s1) == e.op \in {"Flush", "IntoInner", "DropPkg"} => LoadedS(s1) = AbsS(s)
CloseReopen == [][CloseReopenStep(Cur, hist'.last, Nxt)]_view
\* C16: a clean session that is closed or reloaded leaves the medium alone
QuietStep(s, e, s1) ==
  (CleanS(s) /\ e.op \in {"Flush", "IntoInner", "DropPkg", "Reopen", "Crash"})
     => Same(s, s1, {"tstream", "dpool", "dsum", "ustreams"})
ReadOnlyQuiet == [][QuietStep(Cur, hist'.last, Nxt)]_view
=============================================================================
