------------------------------- MODULE MC_Msi -------------------------------
(***************************************************************************)
(* Bounded instances of Msi.tla.  One module, several alphabets selected   *)
(* by the constant Cfg; every transition is emitted as one JSON line       *)
(* (ACTION_CONSTRAINT Emit) carrying the event path that leads to its      *)
(* source state, the event, and the expected abstract state, so that the   *)
(* harness can replay EVERY transition of the reachable graph on the real  *)
(* library.                                                                *)
(***************************************************************************)
EXTENDS Msi, Json

CONSTANT Cfg

\* --- names and values of the bounded alphabets ---------------------------
T == <<84>>   U == <<85>>          \* table names "T", "U"
K == <<75>>   V == <<86>>   W == <<87>>   X == <<88>>
sa == StrV(<<97>>)  sb == StrV(<<98>>)  sT == StrV(T)  sE == StrV(<<>>)
se == StrV(<<233>>)                              \* "é": one byte in code page 1252, two in UTF-8
Long33 == [k \in 1..33 |-> 65 + (k % 26)]     \* an identifier of 33 characters

ColK   == IntCol(K, "i16", FALSE, TRUE)
ColV   == StrCol(V, 8, TRUE, FALSE, <<>>)
ColVs  == StrCol(V, 8, TRUE, TRUE, <<>>)                \* nullable string key
ColW   == MkCol(W, "i32", 0, TRUE, FALSE, FALSE, <<0, 9>>, <<>>, <<>>, <<>>)
TabT   == <<ColK, ColV>>                                 \* T(K key, V)
TabU   == <<ColV, ColK>>                                 \* U(V, K key): key is not the first column
TabR   == <<ColK, MkCol(V, "s", 8, TRUE, FALSE, FALSE, <<0, 9>>, <<>>, <<>>, <<>>)>>   \* a string column with a range
TabC   == <<ColK, ColVs, ColW>>                          \* composite key (K, V) with a nullable string part

Absent == [absent |-> 0]
InitSummary ==
  [arch |-> Absent, author |-> Absent, codepage |-> IntV(65001), comments |-> Absent,
   creating_application |-> Absent, creation_time |-> Absent, languages |-> Absent,
   subject |-> Absent, title |-> StrV(TitleInstaller), uuid |-> Absent, word_count |-> Absent]

Cols33 == [k \in 1..33 |-> IntCol(<<67, 48 + (k \div 10), 48 + (k % 10)>>, "i16", FALSE, k = 1)]
\* stream names: packable (odd, even, at and beyond the 31-unit limit), unpackable ASCII and non-ASCII,
\* characters inside the packing ranges, table marker, reserved characters, the special streams
Packable(n) == [k \in 1..n |-> IF k % 3 = 0 THEN 48 + (k % 10) ELSE 97 + (k % 26)]
N_Summary == <<5, 83, 117, 109, 109, 97, 114, 121, 73, 110, 102, 111, 114, 109, 97, 116, 105, 111, 110>>
N_DocSummary == <<5, 68, 111, 99, 117, 109, 101, 110, 116, 83, 117, 109, 109, 97, 114, 121, 73, 110, 102, 111, 114, 109, 97, 116, 105, 111, 110>>
N_Signature == <<5, 68, 105, 103, 105, 116, 97, 108, 83, 105, 103, 110, 97, 116, 117, 114, 101>>
N_SigEx == <<5, 77, 115, 105, 68, 105, 103, 105, 116, 97, 108, 83, 105, 103, 110, 97, 116, 117, 114, 101, 69, 120>>
N_StringPool == <<95, 83, 116, 114, 105, 110, 103, 80, 111, 111, 108>>
Cjk(n) == [k \in 1..n |-> 26085]                \* n x "日": n UTF-16 units, 3n bytes (31 fit, 32 do not)
LongOdd == <<97>> \o [k \in 1..40 |-> 233]      \* "a" + 40 x "é": 81 bytes, 41 UTF-16 units
StreamNames ==
  { <<97>>, <<48, 48>>, <<14336>>, Packable(3), Packable(62), Packable(63), <<97, 32, 98>>, <<233>>, <<18431>>, <<18432>>, <<18495>>,
    <<18496, 97>>, <<97, 18496>>, <<47, 233>>, <<97, 47, 98>>, <<92>>, <<58>>, <<33>>, <<>>, <<201, 97>>, <<67, 97, 102, 201>>, <<931>>,
    N_Summary, N_DocSummary, N_Signature, N_SigEx, N_StringPool, T, <<128512>>,
    \* the ends of the packing alphabet ('0' = 0, '_' = 63) as the odd character of a run and as a pair
    <<48>>, <<95>>, <<97, 98, 48>>, <<97, 98, 95>>, <<95, 95>>,
    \* refused names that are long in BYTES, with multi-byte characters at every alignment (error paths quote the name)
    LongOdd, <<18433>>, Cjk(21), Cjk(31), Cjk(32), [k \in 1..32 |-> 8364], <<97, 47>> \o [k \in 1..24 |-> IF k % 2 = 1 THEN 20013 ELSE 25991], <<97, 98>> \o [k \in 1..20 |-> 128512],
    \* a leading control character other than U+0005 is an ordinary name (only U+0005 marks the reserved streams)
    <<1, 67>>, <<31>> }
StreamNamesQ == { <<97>>, <<48, 48>>, <<14336>>, Packable(62), Packable(63), <<233>>, <<201, 97>>, <<47, 233>>, <<18496, 97>>, <<>>,
                  N_Summary, N_Signature, T, <<48>>, <<97, 98, 95>>, LongOdd, <<18433>>, Cjk(31), Cjk(32),
                  <<97, 18496>>, <<1, 67>>, <<45>> \o Packable(60) }    \* "-" + 60 packable characters: 31 units when the run pairs up from its start       \* the table marker is a marker in first position only; a control character is not U+0005
Eq(c, v) == Bin("eq", Col(c), Lit(v))

E(op, args) == [op |-> op, args |-> args]
Ins(t, rows) == E("Insert", [table |-> t, rows |-> rows])
Upd(t, sets, cond) == E("Update", [table |-> t, sets |-> sets, cond |-> cond])
Del(t, cond) == E("Delete", [table |-> t, cond |-> cond])
Cre(t, cols) == E("CreateTable", [table |-> t, cols |-> cols])
Drp(t) == E("DropTable", [table |-> t])
Closes == {E("Flush", [x |-> 0]), E("IntoInner", [x |-> 0]), E("DropPkg", [x |-> 0]),
           E("Reopen", [x |-> 0]), E("Crash", [x |-> 0])}

\* every KIND of invalid call (C04), incl. failures discovered late
Rejects(t, cols) ==
  { Ins(X, <<<<IntV(1)>>>>),                                     \* unknown table
    Ins(t, <<<<IntV(1)>>>>),                                     \* wrong arity
    Ins(t, <<<<sa, sa>>>>),                                      \* string in integer column
    Ins(t, <<<<IntV(1), sa>>, <<IntV(2), IntV(7)>>>>),           \* last row of a batch invalid
    Ins(t, <<<<IntV(7), sa>>, <<IntV(7), sb>>>>),                \* duplicate within the batch
    Ins(t, <<<<IntV(32768), Null>>>>),                           \* not storable in 16 bits
    Upd(t, <<<<X, Null>>>>, True),                               \* unknown column in SET
    Upd(t, <<<<K, sa>>>>, True),                                 \* invalid value in SET
    Upd(t, <<<<V, Null>>>>, Eq(X, IntV(1))),                     \* unknown column in WHERE
    Upd(X, <<<<V, Null>>>>, True),
    Del(t, Eq(X, IntV(1))), Del(X, True),
    Drp(X), Drp(N_Tables), Drp(N_Validation), Drp(<<57>>),
    Cre(<<57, 120>>, cols),                                      \* invalid table name "9x"
    Cre(N_Columns, cols),                                        \* reserved / existing
    Cre(X, <<>>),                                                \* no columns
    Cre(X, <<ColV>>),                                            \* no primary key
    Cre(X, <<ColK, ColK>>),                                      \* duplicate column names
    Cre(X, <<ColK, StrCol(<<57>>, 8, TRUE, FALSE, <<>>)>>),      \* invalid column name
    Cre(X, Cols33),                                              \* more than 32 columns
    \* late failures: accepted by the name checks, not storable in the catalog
    Cre(X, <<ColK, StrCol(V, 300, TRUE, FALSE, <<>>)>>),         \* width does not fit the type word
    Cre(Long33, <<ColK>>),                                       \* table name longer than _Validation.Table
    Cre(X, <<ColK, StrCol(Long33, 8, TRUE, FALSE, <<>>)>>),      \* column name too long
    Cre(X, <<ColK, MkCol(V, "i32", 0, TRUE, FALSE, FALSE, <<MinI32, 0>>, <<>>, <<>>, <<>>)>>),
    Cre(X, <<ColK, MkCol(V, "s", 8, TRUE, FALSE, FALSE, <<>>, <<>>, <<>>, <<<<97, 59, 98>>>>)>>),  \* enum "a;b"
    Cre(X, <<ColK, MkCol(V, "i16", 0, TRUE, FALSE, FALSE, <<>>, <<<<57>>, 1>>, <<>>, <<>>)>>)      \* bad foreign key
  }

Alphabet ==
  CASE Cfg = "dml" ->           \* relational + pool breadth on one table; nothing is saved (see "persist")
         {Cre(T, TabT), Drp(T)}
         \cup {Ins(T, <<<<IntV(k), v>>>>) : k \in {1, 2}, v \in {Null, sa, sT, sE}}
         \cup {Ins(T, <<<<IntV(2), sa>>, <<IntV(1), sa>>>>)}
         \cup {Upd(T, <<<<V, v>>>>, Eq(K, IntV(1))) : v \in {Null, sb}}
         \cup {Upd(T, <<<<K, IntV(2)>>>>, True), Upd(T, <<<<K, IntV(3)>>>>, Eq(K, IntV(1))),
               Upd(T, <<<<V, sb>>, <<K, IntV(2)>>>>, True)}
         \cup {Del(T, Eq(K, IntV(1))), Del(T, True)}
         \* a string column assigned twice in one statement: the first value leaves no trace (rows, pool, counts)
         \cup {Upd(T, <<<<V, sT>>, <<V, sb>>>>, Eq(K, IntV(1)))}
         \* a logical operator INSIDE a comparison: (K OR K) is 1 for K = 2, so the row with key 2 goes
         \cup {Del(T, Bin("eq", Bin("or", Col(K), Col(K)), Lit(IntV(1)))), Upd(T, <<<<V, sb>>>>, Bin("eq", Bin("and", Col(K), Col(K)), Lit(IntV(1))))}
    [] Cfg = "persist" ->       \* what the finisher saves of tables and pool; all three closes, reopen, crash point
         {Cre(T, TabT), Drp(T), Ins(T, <<<<IntV(1), sa>>>>), Ins(T, <<<<IntV(2), sa>>>>),
          Upd(T, <<<<V, sT>>>>, Eq(K, IntV(1))), Upd(T, <<<<V, se>>>>, Eq(K, IntV(2))), Del(T, Eq(K, IntV(1)))}
         \cup {E("SetCodepage", [cp |-> 1252])}
         \cup Closes
    [] Cfg = "persist2" ->      \* summary information, streams and code page against the same closes
         {Cre(T, TabT), Ins(T, <<<<IntV(1), se>>>>)}
         \cup {E("SetCodepage", [cp |-> 1252])}
         \cup {E("SetSummary", [field |-> "author", value |-> v]) : v \in {StrV(<<120, 233>>), Absent}}
         \cup {E("WriteStream", [name |-> <<115>>, data |-> d]) : d \in {"b01", "b0202"}}
         \cup {E("RemoveStream", [name |-> <<115>>])}
         \cup {E("AddSignature", [x |-> 0])}        \* a signing tool signs the closed file: reading and closing it keeps the signature (C16)
         \cup Closes
    [] Cfg = "streams" ->       \* C11 (quick): adversarial names, interleaved with a table operation, reopen, signature
         {E("WriteStream", [name |-> n, data |-> "b01"]) : n \in StreamNamesQ}
         \cup {E("WriteStream", [name |-> n, data |-> "g4096_7"]) : n \in {<<97>>, Packable(62), T}}     \* overwrite across the small-stream cutoff
         \cup {E("RemoveStream", [name |-> n]) : n \in StreamNamesQ}
         \cup {E("ReadStream", [name |-> n]) : n \in StreamNamesQ}
         \cup {Cre(T, TabT), Drp(T), E("RemoveSignature", [x |-> 0]), E("AddSignature", [x |-> 0]),
               E("Flush", [x |-> 0]), E("IntoInner", [x |-> 0]), E("Reopen", [x |-> 0])}
    [] Cfg = "streamsfull" ->   \* C11 (thorough): all names; every name next to each of the probe names (see PoolBound)
         {E("WriteStream", [name |-> n, data |-> "b01"]) : n \in StreamNames}
         \cup {E("WriteStream", [name |-> n, data |-> d]) : n \in {<<97>>, Packable(62), Packable(63), T, <<233>>}, d \in {"b", "g4096_7", "g8193_3"}}
         \cup {E("RemoveStream", [name |-> n]) : n \in StreamNames}
         \cup {E("ReadStream", [name |-> n]) : n \in StreamNames}
         \cup {Cre(T, TabT), Drp(T), E("RemoveSignature", [x |-> 0]), E("AddSignature", [x |-> 0]),
               E("Flush", [x |-> 0]), E("IntoInner", [x |-> 0]), E("Reopen", [x |-> 0])}
    [] Cfg = "limits" ->        \* C20, scaled: 2 columns, 3 rows, a pool that fills up; not replayed (scaled constants)
         {Cre(T, TabT), Cre(U, <<ColK, ColV, ColW>>), Drp(T)}
         \cup {Ins(T, <<<<IntV(k), v>>>>) : k \in 1..4, v \in {sa, sb, StrV(<<99>>), StrV(<<100>>)}}
         \cup {Ins(T, <<<<IntV(1), sa>>, <<IntV(2), sb>>, <<IntV(3), sT>>, <<IntV(4), sa>>>>), Ins(T, <<<<IntV(5), sa>>, <<IntV(6), sb>>>>)}
         \cup {Upd(T, <<<<V, StrV(<<101>>)>>>>, Eq(K, IntV(1))), Del(T, Eq(K, IntV(1))), Del(T, True)}
         \cup {E("Flush", [x |-> 0]), E("IntoInner", [x |-> 0]), E("Reopen", [x |-> 0])}
    [] Cfg = "reject" ->        \* every kind of invalid call (C04) in every state of a small model
         {Cre(T, TabT), Drp(T), Ins(T, <<<<IntV(1), sa>>>>), Ins(T, <<<<IntV(7), sT>>>>), Del(T, True),
          Upd(T, <<<<V, sb>>, <<K, IntV(5)>>>>, True),     \* refused when it would make two keys equal, after touching strings
          E("Flush", [x |-> 0]), E("IntoInner", [x |-> 0]), E("Reopen", [x |-> 0])}
         \cup Rejects(T, TabT)
         \* a STRING column that declares an integer range: an in-range integer is still not a string (the value
         \* check and the cell writer must agree before anything is written), with a row already stored
         \cup {Cre(U, TabR), Ins(U, <<<<IntV(1), sb>>>>), Ins(U, <<<<IntV(2), IntV(5)>>>>), Upd(U, <<<<V, IntV(5)>>>>, True)}
    [] Cfg = "catalog" ->       \* C06: several tables in one catalog whose names are related: "P"."Q.R" against "P.Q"."R"
                                \* (the same dotted path), a table named like another table's column, a prefix pair
         {Cre(<<80>>, <<ColK, MkCol(<<81, 46, 82>>, "s", 8, TRUE, FALSE, TRUE, <<>>, <<>>, C_Identifier, <<>>)>>),
          Cre(<<80, 46, 81>>, <<ColK, MkCol(<<82>>, "i16", 0, FALSE, FALSE, FALSE, <<0, 9>>, <<>>, <<>>, <<>>)>>),
          \* R's second column refers to table P (foreign key) and has a range: dropping P leaves R's description alone
          Cre(<<82>>, <<MkCol(<<80>>, "s", 0, FALSE, TRUE, FALSE, <<>>, <<>>, <<>>, <<<<97>>, <<98>>>>),
                        MkCol(W, "i32", 0, TRUE, FALSE, FALSE, <<0, 9>>, <<<<80>>, 1>>, <<>>, <<>>)>>),
          Drp(<<80>>), Ins(<<80, 46, 81>>, <<<<IntV(1), IntV(9)>>>>),
          E("Flush", [x |-> 0]), E("IntoInner", [x |-> 0]), E("Reopen", [x |-> 0])}
    [] Cfg = "keysq" ->         \* quick subset of "keys": key not first, re-keying updates incl. a column assigned twice
         {Cre(U, TabU)}
         \cup {Ins(U, <<<<v, IntV(k)>>>>) : k \in {1, 2}, v \in {Null, sa}}
         \cup {Upd(U, <<<<K, IntV(1)>>>>, True), Upd(U, <<<<K, IntV(3)>>>>, Eq(K, IntV(1))),
               Upd(U, <<<<K, IntV(9)>>, <<K, IntV(2)>>>>, Eq(K, IntV(1))), Upd(U, <<<<K, IntV(2)>>, <<K, IntV(9)>>>>, Eq(K, IntV(1)))}
         \cup {Del(U, Eq(K, IntV(1))), E("IntoInner", [x |-> 0]), E("Reopen", [x |-> 0])}
    [] Cfg = "keysc" ->         \* composite key (K, V) on its own: updates that assign SOME of the key columns, with and without a condition
         {Cre(T, TabC), Ins(T, <<<<IntV(1), sa, Null>>>>), Ins(T, <<<<IntV(2), Null, Null>>>>),
          Upd(T, <<<<K, IntV(7)>>>>, True),                        \* leading key column, no condition: the rows are then ordered by the rest of the key
          Upd(T, <<<<K, IntV(1)>>>>, Eq(K, IntV(2))),               \* in front of the existing key (1, "a"): (1, null) sorts first
          Upd(T, <<<<V, sa>>>>, Eq(K, IntV(2))),                    \* trailing key column: (2, "a")
          Ins(T, <<<<IntV(1), Null, Null>>>>),
          Upd(T, <<<<V, Null>>>>, Eq(K, IntV(1))),                  \* null assigned to a key column: (1, "a") and (1, null) would collide
          Upd(T, <<<<V, sb>>, <<V, sa>>>>, Eq(K, IntV(2))),         \* a string column assigned twice: the first value leaves no trace in the pool
          E("IntoInner", [x |-> 0]), E("Reopen", [x |-> 0])}
    [] Cfg = "keyss" ->         \* a string key column re-assigned a NEW text, which takes the pool entry the old text gives up: rows are
                                \* ordered by the TEXT of the key, whatever the numbers of the entries ("c" in the entry of "a" sorts after "b")
         {Cre(T, TabC), Ins(T, <<<<IntV(1), sa, Null>>>>), Ins(T, <<<<IntV(1), sb, Null>>>>),
          Upd(T, <<<<V, StrV(<<99>>)>>>>, Bin("eq", Col(V), Lit(sa))), Upd(T, <<<<V, sa>>>>, Bin("eq", Col(V), Lit(sb))),
          Del(T, Bin("eq", Col(V), Lit(sb))), E("IntoInner", [x |-> 0]), E("Reopen", [x |-> 0])}
    [] Cfg = "keys" ->          \* key shapes: key not first, composite with nullable string part
         {Cre(U, TabU), Cre(T, TabC), Drp(U), Drp(T)}
         \cup {Ins(U, <<<<v, IntV(k)>>>>) : k \in {1, 2}, v \in {Null, sa}}
         \cup {Ins(T, <<<<IntV(1), sE, Null>>, <<IntV(1), Null, IntV(1)>>>>)}        \* "" is the null key: duplicate within the batch
         \cup {Ins(U, <<<<sa, IntV(2)>>, <<sb, IntV(1)>>>>)}
         \cup {Ins(T, <<<<IntV(k), v, Null>>>>) : k \in {1, 2}, v \in {Null, sa, sE}}
         \cup {Ins(T, <<<<IntV(1), sb, IntV(5)>>, <<IntV(1), sa, IntV(10)>>>>)}
         \cup {Upd(T, <<<<V, v>>>>, True) : v \in {Null, sb}}
         \cup {Upd(T, <<<<K, IntV(7)>>>>, True)}                  \* leading key column, no condition: order by the rest of the key
         \cup {Upd(U, <<<<K, IntV(1)>>>>, True), Upd(U, <<<<K, IntV(3)>>>>, Eq(K, IntV(1)))}
         \* a column assigned twice: the last assignment is stored and it is the one the key check must use
         \cup {Upd(U, <<<<K, IntV(9)>>, <<K, IntV(2)>>>>, Eq(K, IntV(1))), Upd(U, <<<<K, IntV(2)>>, <<K, IntV(9)>>>>, Eq(K, IntV(1)))}
         \cup {Del(U, Eq(K, IntV(1))), Del(T, Eq(V, Null)), Del(T, True)}
         \cup {E("Flush", [x |-> 0]), E("IntoInner", [x |-> 0]), E("Reopen", [x |-> 0])}
    [] Cfg = "two" ->           \* two tables sharing strings with each other and with the catalog
         {Cre(T, TabT), Cre(U, TabU), Drp(T), Drp(U)}
         \cup {Ins(T, <<<<IntV(k), v>>>>) : k \in {1, 2}, v \in {sa, sT}}
         \cup {Ins(U, <<<<v, IntV(1)>>>>) : v \in {sa, sT, Null}}
         \cup {Upd(T, <<<<V, sb>>>>, Eq(K, IntV(1))), Upd(U, <<<<V, sa>>>>, True)}
         \cup {Del(T, True), Del(U, True), Del(T, Eq(K, IntV(2)))}
         \cup {E("Flush", [x |-> 0]), E("DropPkg", [x |-> 0]), E("Reopen", [x |-> 0])}

Do(e) ==
  CASE e.op = "CreateTable" -> CreateTable(e.args.table, e.args.cols)
    [] e.op = "DropTable"   -> DropTable(e.args.table)
    [] e.op = "Insert"      -> Insert(e.args.table, e.args.rows)
    [] e.op = "Update"      -> Update(e.args.table, e.args.sets, e.args.cond)
    [] e.op = "Delete"      -> Delete(e.args.table, e.args.cond)
    [] e.op = "SetCodepage" -> SetCodepage(e.args.cp)
    [] e.op = "SetSummary"  -> SetSummary(e.args.field, e.args.value)
    [] e.op = "WriteStream" -> WriteStream(e.args.name, e.args.data)
    [] e.op = "RemoveStream" -> RemoveStream(e.args.name)
    [] e.op = "ReadStream"  -> ReadStream(e.args.name)
    [] e.op = "RemoveSignature" -> RemoveSignature
    [] e.op = "AddSignature" -> AddSignature
    [] e.op = "Flush"       -> Flush
    [] e.op = "IntoInner"   -> IntoInner
    [] e.op = "DropPkg"     -> DropPkg
    [] e.op = "Reopen"      -> Reopen
    [] e.op = "Crash"       -> Crash

\* The state Package::create leaves: the catalog describes _Validation, everything flushed.
Created ==
  DoCreate([pool |-> <<>>, ts |-> << >>], N_Validation, ValidationCols, TRUE).ok

MCInit ==
  /\ schemas = [t \in {N_Tables, N_Columns, N_Validation} |->
                  IF t = N_Tables THEN TablesCols ELSE IF t = N_Columns THEN ColumnsCols ELSE ValidationCols]
  /\ tstream = Created.ts /\ pool = Created.pool
  /\ cp = 65001 /\ summary = InitSummary
  /\ dirty = [fin |-> FALSE, sum |-> FALSE, pool |-> FALSE]
  /\ dpool = [cp |-> 65001, e |-> Created.pool] /\ dsum = summary
  /\ ustreams = << >> /\ sess = "open" /\ ptype = "Installer" /\ ro = FALSE /\ msync = TRUE
  /\ hist = [path |-> <<>>, last |-> [op |-> "Create", args |-> [ptype |-> "Installer"], res |-> "Ok"]]

MCNext == \E e \in Alphabet : Do(e)
MCSpec == MCInit /\ [][MCNext]_vars

\* names that could alias another one under the packing or under the container's comparison
ProbeNames == {<<97>>, <<48, 48>>, <<14336>>, T, <<233>>, Packable(62), <<95, 95>>, <<18431>>}
PoolBound == /\ Len(pool) <= (IF Cfg = "catalog" THEN 90 ELSE IF Cfg \in {"keysc", "keyss"} THEN 60 ELSE 40)
             /\ Cardinality(DOMAIN ustreams \ {SIG}) <= 2
             /\ (Cfg \in {"streamsfull", "streams"} /\ Cardinality(DOMAIN ustreams \ {SIG}) = 2 => (DOMAIN ustreams \cap ProbeNames) # {})

-----------------------------------------------------------------------------
\* JSON shape of the abstract state (tables and streams as lists; the harness sorts by name)
AbsJ(a) ==
  [ptype |-> a.ptype, cp |-> a.cp, summary |-> a.summary,
   streams |-> SetToSeq({[name |-> n, data |-> a.streams[n]] : n \in DOMAIN a.streams}), sig |-> a.sig,
   tables  |-> SetToSeq({[name |-> t, cols |-> a.tables[t].cols, rows |-> a.tables[t].rows] : t \in DOMAIN a.tables})]

\* Only the tables that the step changed travel in full; the others are listed by name and the
\* harness requires them to be identical to what it observed before the step (frame condition).
DiffJ(a, a1) ==
  LET changed == {t \in DOMAIN a1.tables : t \notin DOMAIN a.tables \/ a1.tables[t] # a.tables[t]}
  IN [ptype |-> a1.ptype, cp |-> a1.cp, summary |-> a1.summary,
      streams |-> SetToSeq({[name |-> n, data |-> a1.streams[n]] : n \in DOMAIN a1.streams}), sig |-> a1.sig,
      tables  |-> SetToSeq({[name |-> t, cols |-> a1.tables[t].cols, rows |-> a1.tables[t].rows] : t \in changed}),
      same    |-> SetToSeq(DOMAIN a1.tables \ changed)]
Present(ts) == SetToSeq(DOMAIN ts)

NoTables == [tables |-> << >>]
Emit == PrintT(<<"EDGE", ToJson([path |-> SubSeq(hist'.path, 2, Len(hist'.path)),
                                 ev |-> hist'.last,
                                 open |-> sess' = "open",
                                 clean |-> ~dirty'.fin,
                                 preclean |-> ~dirty.fin,
                                 present |-> Present(tstream'),
                                 dst |-> DiffJ(IF sess = "open" THEN AbsS(Cur) ELSE NoTables, AbsS(Nxt))])>>)
=============================================================================
