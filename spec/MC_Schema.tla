------------------------------ MODULE MC_Schema ------------------------------
(***************************************************************************)
(* C06: enumeration of table definitions over the builder options.  TLC    *)
(* decides acceptance (CreateOK + Representable) and checks, as an         *)
(* invariant of the specification, that every accepted column survives the *)
(* catalog encoding: FromCatalog(ColumnsRow, ValidationRow) = column.       *)
(* One transition = one case [table, cols, want]; the harness creates the  *)
(* table, reads the schema back immediately and after save + reopen.       *)
(***************************************************************************)
EXTENDS Schema, Json

K0 == IntCol(<<75, 48>>, "i16", FALSE, TRUE)       \* fixed key column "K0"
Nm == <<67>>
TName == <<83>>                                     \* table "S"
Ident(n) == [k \in 1..n |-> IF k = 1 THEN 65 ELSE 97 + (k % 26)]

Widths == {0, 1, 255, 256, 300, 511, 512, 2047, 2048, 2303, 32767, 65535}
Flags == {[n |-> a, k |-> b, l |-> c] : a \in BOOLEAN, b \in BOOLEAN, c \in BOOLEAN}
Ranges == {<<>>, <<0, 9>>, <<-2147483647, 2147483647>>, <<MinI32, 0>>, <<5, 1>>}
Enums == {<<>>, <<<<97>>>>, <<<<97>>, <<98>>>>, <<<<97, 59, 98>>>>, <<<<>>>>, <<<<32, 98>>>>, <<<<98, 32>>, <<98>>>>,
          <<Ident(200), Ident(100)>>}
Fks == {<<>>, <<<<84>>, 1>>, <<<<57, 120>>, 1>>, <<<<84>>, 0>>, <<<<84>>, 32>>, <<<<84>>, 33>>, <<Ident(255), 1>>, <<Ident(256), 1>>}

Col(name, ty, w, f, rg, fk, cat, en) == MkCol(name, ty, w, f.n, f.k, f.l, rg, fk, cat, en)
F0 == [n |-> TRUE, k |-> FALSE, l |-> FALSE]

Defs ==
       {<<Col(Nm, "s", w, f, <<>>, <<>>, cat, <<>>)>> : w \in Widths, f \in Flags, cat \in {<<>>, C_Identifier, C_Binary}}
  \cup {<<Col(Nm, "s", 50, f, <<>>, <<>>, CategoryNames[c], <<>>)>> : c \in 1..Len(CategoryNames), f \in {F0, [F0 EXCEPT !.n = FALSE]}}
  \cup {<<Col(Nm, ty, 0, f, rg, <<>>, <<>>, <<>>)>> : ty \in {"i16", "i32"}, f \in Flags, rg \in Ranges}
  \cup {<<Col(Nm, "s", w, F0, <<>>, <<>>, <<>>, en)>> : w \in {0, 8}, en \in Enums}
  \cup {<<Col(Nm, ty, 0, F0, rg, <<>>, C_Text, <<<<49>>>>)>> : ty \in {"i16"}, rg \in {<<>>, <<0, 9>>}}       \* string options on an integer column
  \cup {<<Col(Nm, "s", 8, F0, <<0, 9>>, <<>>, <<>>, <<>>)>>}                                              \* range on a string column
  \cup {<<Col(Nm, ty, IF ty = "s" THEN 8 ELSE 0, F0, <<>>, fk, <<>>, <<>>)>> : ty \in {"i16", "s"}, fk \in Fks}
  \cup {<<Col(Ident(n), "s", 8, F0, <<>>, <<>>, <<>>, <<>>)>> : n \in {1, 31, 32, 33, 64, 65}}
Tables ==
       {[table |-> TName, cols |-> <<K0>> \o d] : d \in Defs}
  \cup {[table |-> Ident(n), cols |-> <<K0>>] : n \in {1, 31, 32, 33, 60, 61, 64}}
  \cup {[table |-> TName, cols |-> [k \in 1..n |-> IntCol(<<67, 48 + (k \div 10), 48 + (k % 10)>>, "i16", FALSE, k = 1)]] : n \in {1, 2, 31, 32, 33}}
  \cup {[table |-> TName, cols |-> <<Col(Nm, "s", 8, F0, <<>>, <<>>, <<>>, <<>>)>>]}         \* no key
  \cup {[table |-> TName, cols |-> <<K0, K0>>], [table |-> TName, cols |-> <<>>]}
  \* the ORDER of the columns is the caller's: key columns last, and interleaved with the others
  \cup {[table |-> TName, cols |-> d \o <<K0>>] : d \in {<<Col(Nm, "s", 8, F0, <<>>, <<>>, <<>>, <<>>)>>, <<Col(Nm, "i32", 0, F0, <<0, 9>>, <<>>, <<>>, <<>>)>>}}
  \cup {[table |-> TName, cols |-> <<IntCol(<<65>>, "i16", FALSE, TRUE), Col(Nm, "s", 8, F0, <<>>, <<>>, <<>>, <<>>),
                                     IntCol(<<66>>, "i32", FALSE, TRUE), Col(<<68>>, "i16", 0, F0, <<>>, <<>>, <<>>, <<>>), StrCol(<<69>>, 4, FALSE, TRUE, <<>>)>>]}

\* the table name must also be packable into a stream name of at most 31 UTF-16 units
\* (two characters per unit plus the table marker): at most 60 characters
Accepted(t, cols) ==
  /\ CreateOK(t, cols) /\ Len(t) <= 60
  /\ \A k \in 1..Len(cols) : Representable(t, cols[k])

VARIABLES stage, case
Init == stage = "go" /\ case = [none |-> 0]
Next == /\ stage = "go" /\ stage' = "done"
        /\ \E d \in Tables : case' = [table |-> d.table, cols |-> d.cols, want |-> IF Accepted(d.table, d.cols) THEN "Ok" ELSE "Err"]
Spec == Init /\ [][Next]_<<stage, case>>

\* the catalog encoding is lossless on everything that is accepted
RoundTrip == ("want" \in DOMAIN case /\ case.want = "Ok") =>
   \A k \in 1..Len(case.cols) :
      FromCatalog(ColumnsRow(case.table, k, case.cols[k]), NormRow(ValidationRow(case.table, case.cols[k]))) = case.cols[k]
TypeWordFits == ("want" \in DOMAIN case /\ case.want = "Ok") =>
   \A k \in 1..Len(case.cols) : TypeWord(case.cols[k]) \in 1..32767
Emit == PrintT(<<"CASE", ToJson(case')>>)
=============================================================================
