------------------------------ MODULE MC_Valid -------------------------------
(***************************************************************************)
(* C07: bounded-exhaustive enumeration of (column definition, value) pairs *)
(* with the verdict of spec/Schema.tla!ValidV and spec/Category.tla as the *)
(* oracle ("yes" / "no" / "unspec": a check fails only on a decided case). *)
(* stage selects a family; one transition = one case [col, v, want].       *)
(***************************************************************************)
EXTENDS Query, Json

CONSTANT MaxLen        \* strings over the adversarial alphabet up to this length

Nm == <<67>>   \* column name "C"

\* sign characters, digits, dot, comma, braces, hex letters in both cases, a non-hex letter,
\* '%', '#', '_', a 2-byte and a 4-byte character
Alphabet == <<43, 45, 48, 57, 49, 46, 44, 123, 125, 65, 102, 71, 37, 35, 95, 233, 128512>>
RECURSIVE Strings(_)
Strings(n) == IF n = 0 THEN {<<>>}
              ELSE LET s == Strings(n - 1) IN s \cup {Append(x, Alphabet[k]) : x \in s, k \in 1..Len(Alphabet)}

Cats == <<C_Identifier, C_Property, C_Integer, C_DoubleInteger, C_Version, C_Language, C_Cabinet,
          C_UpperCase, C_LowerCase, C_Text, C_GUID, C_Formatted>>
CatCol(cat) == StrCol(Nm, 0, TRUE, FALSE, cat)

D(s) == s   \* digit strings are written as code points below
Special ==  \* boundary texts beyond the bounded-exhaustive length
  { <<51,50,55,54,55>>, <<51,50,55,54,56>>, <<45,51,50,55,54,55>>, <<45,51,50,55,54,56>>, <<45,51,50,55,54,57>>,
    <<54,53,53,51,53>>, <<54,53,53,51,54>>, <<48,48,48,48,49>>, <<43,53>>, <<45,48>>,
    <<50,49,52,55,52,56,51,54,52,55>>, <<50,49,52,55,52,56,51,54,52,56>>, <<45,50,49,52,55,52,56,51,54,52,55>>,
    <<45,50,49,52,55,52,56,51,54,52,56>>, <<45,50,49,52,55,52,56,51,54,52,57>>, <<57,57,57,57,57,57,57,57,57,57,57,57>>,
    <<49,46,50,46,51,46,52>>, <<49,46,50,46,51,46,52,46,53>>, <<54,53,53,51,53,46,54,53,53,51,53,46,54,53,53,51,53,46,54,53,53,51,53>>,
    <<49,46,54,53,53,51,54>>, <<49,48,51,51,44,50,48,53,55>>, <<49,48,51,51,44>>, <<44,49,48,51,51>>, <<49,48,51,51,44,54,53,53,51,54>>,
    <<97,98,99,100,101,102,103,104>>, <<97,98,99,100,101,102,103,104,105>>, <<97,98,99,100,101,102,103,104,46,116,120,116>>,
    <<97,46,116,120,116,120>>, <<35,97,98,99>>, <<35,49,97>>, <<46,116,120,116>>, <<97,46,98,46,99>>, <<97,46>>,
    <<37,97>>, <<37>>, <<37,37,97>>, <<97,46,98>>, <<95,97,49>>, <<97,32,98>> }

Hex == <<48,49,50,51,52,53,54,55,56,57,65,66,67,68,69,70>>
Guid1 == <<123, 48,49,50,51,52,53,54,55, 45, 56,57,65,66, 45, 67,68,69,70, 45, 48,49,50,51, 45, 52,53,54,55,56,57,65,66,67,68,69,70, 125>>
Guid2 == <<123, 70,70,70,70,70,70,70,70, 45, 48,48,48,48, 45, 48,48,48,48, 45, 48,48,48,48, 45, 48,48,48,48,48,48,48,48,48,48,48,48, 125>>
Repl == {48, 70, 71, 97, 102, 45, 123, 125, 233, 32}
Mut1(g) == {[g EXCEPT ![p] = c] : p \in 1..38, c \in Repl}
Guids == {Guid1, Guid2} \cup Mut1(Guid1) \cup Mut1(Guid2)
         \cup {SubSeq(Guid1, 1, 37), Guid1 \o <<125>>, SubSeq(Guid1, 2, 38), <<123>> \o Guid1}
         \cup {[[Guid1 EXCEPT ![p] = 102] EXCEPT ![q] = 45] : p \in {2, 9, 37}, q \in {10, 11, 25}}

\* integer columns: type x nullability x declared range, values around every boundary
Ranges == {<<>>, <<0, 9>>, <<-40000, 40000>>, <<MinI32, 0>>, <<-5, MaxI32>>}
\* (key columns too: a primary-key column may be nullable, and null is then a valid value of it)
IntCols == {MkCol(Nm, ty, 0, nl, ky, FALSE, rg, <<>>, <<>>, <<>>) : ty \in {"i16", "i32"}, nl \in BOOLEAN, ky \in BOOLEAN, rg \in Ranges}
IntVals == {Null, StrV(<<49>>), StrV(<<>>)} \cup
           {IntV(k) : k \in {MinI32, MinI32 + 1, -40001, -40000, -32769, -32768, -32767, -6, -5, -1, 0, 1, 9, 10,
                             32767, 32768, 40000, 40001, 65535, MaxI32 - 1, MaxI32}}
\* string columns: width in characters (not bytes), enumerations, nullability
WidthCols == {MkCol(Nm, "s", w, nl, ky, FALSE, <<>>, <<>>, <<>>, en) :
                w \in {0, 1, 2, 3}, nl \in BOOLEAN, ky \in BOOLEAN, en \in {<<>>, <<<<97>>, <<233, 233>>>>}}
WidthVals == {Null, IntV(1), StrV(<<>>), StrV(<<97>>), StrV(<<233>>), StrV(<<233, 233>>), StrV(<<128512, 128512>>),
              StrV(<<97, 98, 99>>), StrV(<<233, 233, 233>>), StrV(<<97, 98, 99, 100>>), StrV(<<128512, 233, 97, 98>>)}

\* arity: a row of m integers offered to a table of n integer columns (first one the key)
NCols(n) == [k \in 1..n |-> IntCol(<<67, 48 + (k \div 10), 48 + (k % 10)>>, "i32", FALSE, k = 1)]
Arities == {[ncols |-> n, nvals |-> m] : n \in {1, 2, 32}, m \in 0..33}

Stages == {<<"cat", k>> : k \in 1..Len(Cats)} \cup {<<"guid", 0>>, <<"int", 0>>, <<"width", 0>>, <<"special", 0>>, <<"arity", 0>>}
CasesOf(st) ==
  CASE st[1] = "cat"     -> {[col |-> CatCol(Cats[st[2]]), v |-> StrV(s)] : s \in Strings(MaxLen)}
    [] st[1] = "special" -> {[col |-> CatCol(Cats[k]), v |-> StrV(s)] : k \in 1..Len(Cats), s \in Special}
    [] st[1] = "guid"    -> {[col |-> CatCol(C_GUID), v |-> StrV(s)] : s \in Guids}
    [] st[1] = "int"     -> {[col |-> c, v |-> x] : c \in IntCols, x \in IntVals}
    [] st[1] = "width"   -> {[col |-> c, v |-> x] : c \in WidthCols, x \in WidthVals}

VARIABLES stage, case
Init == stage \in Stages /\ case = [none |-> 0]
Next == /\ stage[1] # "done"
        /\ IF stage[1] = "arity"
           THEN \E a \in Arities : case' = [arity |-> a, want |-> RowsValid(NCols(a.ncols), <<[k \in 1..a.nvals |-> IntV(k)]>>)]
           ELSE \E c \in CasesOf(stage) : case' = [col |-> c.col, v |-> c.v, want |-> ValidV(c.col, c.v)]
        /\ stage' = <<"done", 0>>
Spec == Init /\ [][Next]_<<stage, case>>

\* sanity of the specification itself: null is valid exactly in nullable columns; a value of the
\* wrong kind is never valid; the verdict is one of the three
Sane == ("want" \in DOMAIN case /\ "col" \in DOMAIN case) =>
   /\ case.want \in {"yes", "no", "unspec"}
   /\ IsNull(case.v) => case.want = (IF case.col.nullable THEN "yes" ELSE "no")
   /\ (IsInt(case.v) /\ case.col.type = "s") => case.want = "no"
   /\ (IsStr(case.v) /\ case.col.type # "s") => case.want = "no"
Emit == PrintT(<<"CASE", ToJson(case')>>)
=============================================================================
