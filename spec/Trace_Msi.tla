----------------------------- MODULE Trace_Msi ------------------------------
(***************************************************************************)
(* impl -> spec: checks that an execution recorded from the real library   *)
(* is a behaviour of Msi.tla.                                              *)
(*                                                                         *)
(* Every line of the trace is one public call, logged at its return:       *)
(*   [op, args, res, st]  where st holds what was OBSERVED after the call  *)
(*     st.api    the state through the public API (tables with schema and  *)
(*               rows as VALUES, code page, summary, streams)              *)
(*     st.pool, st.dirty   the msi_verif hook: in-memory pool and flags    *)
(*     st.img    the medium's bytes read by the independent decoder:       *)
(*               pool streams, table streams as CELLS, user streams,       *)
(*               summary stream (parsed by the independent parser)         *)
(* The state variables of Msi.tla are bound to the observation and the     *)
(* step must satisfy the specification of the logged operation (StepOK);   *)
(* all invariants are evaluated on every observed state.  An outcome other *)
(* than Ok/Err (a panic) matches no action.                                *)
(***************************************************************************)
EXTENDS Msi, Json, IOUtils

Rec == ndJsonDeserialize(IOEnv.TRACE)

VARIABLE l

Has(r, f) == f \in DOMAIN r

Off == [fin |-> FALSE, sum |-> FALSE, pool |-> FALSE]

\* The state record observed at a trace line, given the state before (memory parts of a
\* closed package are not observable: they are carried over, the flags are off).
SeqToFun(ts, key, val) == [n \in {ts[k][key] : k \in 1..Len(ts)} |-> ts[MinOf({k \in 1..Len(ts) : ts[k][key] = n})][val]]
StateOf(st, s) ==
  LET img == st.img
      dpart == [dpool |-> [cp |-> IF img.cp = 0 THEN 65001 ELSE img.cp, e |-> img.pool], dsum |-> img.sum,   \* id 0 = default page
                ustreams |-> LET u == SeqToFun(img.streams, "name", "data") IN
                             IF img.sig THEN [x \in DOMAIN u \cup {SIG} |-> IF x = SIG THEN "sig" ELSE u[x]] ELSE u,
                ptype |-> img.ptype]
      cells == LET pres == SelectSeq(img.tables, LAMBDA x : x.present) IN SeqToFun(pres, "name", "cells")
  IN IF st.open
     THEN LET sc == SeqToFun(st.api.tables, "name", "cols") IN
          [schemas |-> sc,
           tstream |-> [t \in DOMAIN sc \cap DOMAIN cells |-> cells[t]],
           pool |-> st.pool, cp |-> st.api.cp, summary |-> st.api.summary, dirty |-> st.dirty,
           dpool |-> dpart.dpool, dsum |-> dpart.dsum, ustreams |-> dpart.ustreams,
           sess |-> "open", ptype |-> dpart.ptype]
     ELSE IF DOMAIN s.schemas = {}      \* a run that starts on a closed package: memory = what the bytes hold
     THEN LET sc == DecodeSchemas(cells, img.pool) IN
          [schemas |-> sc, tstream |-> [t \in DOMAIN sc \cap DOMAIN cells |-> cells[t]],
           pool |-> NormPool(img.pool), cp |-> dpart.dpool.cp, summary |-> img.sum, dirty |-> Off,
           dpool |-> dpart.dpool, dsum |-> dpart.dsum, ustreams |-> dpart.ustreams,
           sess |-> "closed", ptype |-> dpart.ptype]
     ELSE [schemas |-> s.schemas,
           tstream |-> [t \in DOMAIN s.schemas \cap DOMAIN cells |-> cells[t]],
           pool |-> s.pool, cp |-> s.cp, summary |-> s.summary, dirty |-> Off,
           dpool |-> dpart.dpool, dsum |-> dpart.dsum, ustreams |-> dpart.ustreams,
           sess |-> "closed", ptype |-> dpart.ptype]

\* The three views of the same package agree: API rows = cells resolved through the hook's
\* pool; API streams = container streams; Rows::len() agreed with the rows yielded; the image
\* was decodable; no table stream exists for a table the catalog does not list.
Observed(st, s1) ==
  /\ ~Has(st, "imgerr") /\ ~Has(st, "apierr")
  /\ st.open =>
       /\ st.lenok
       /\ \A k \in 1..Len(st.api.tables) :
             RowsS(s1, st.api.tables[k].name) = st.api.tables[k].rows
       /\ SeqToFun(st.api.streams, "name", "data") = [x \in DOMAIN s1.ustreams \ {SIG} |-> s1.ustreams[x]]
       /\ st.api.sig = (SIG \in DOMAIN s1.ustreams)
       /\ st.api.ptype = s1.ptype
       /\ {st.img.tables[k].name : k \in 1..Len(st.img.tables)} = DOMAIN s1.schemas
  /\ (~s1.dirty.fin => st.img.sumerrs = <<>>)       \* C10: saved summary stream is well-formed

FreshPkg(s1) ==   \* what Package::create leaves
  /\ DOMAIN s1.schemas = {N_Tables, N_Columns, N_Validation}
  /\ s1.schemas[N_Validation] = ValidationCols
  /\ RowsS(s1, N_Tables) = <<<<StrV(N_Validation)>>>>
  /\ Len(RowsS(s1, N_Validation)) = 10 /\ Len(RowsS(s1, N_Columns)) = 10
  /\ ~s1.dirty.fin /\ s1.ustreams = << >>

Bind(s1) ==
  /\ schemas' = s1.schemas /\ tstream' = s1.tstream /\ pool' = s1.pool /\ cp' = s1.cp
  /\ summary' = s1.summary /\ dirty' = s1.dirty /\ dpool' = s1.dpool /\ dsum' = s1.dsum
  /\ ustreams' = s1.ustreams /\ sess' = s1.sess /\ ptype' = s1.ptype /\ ro' = FALSE /\ msync' = TRUE

\* The invariants of Msi.tla, evaluated on an observed state; the names that fail.
CONSTANT InvSkip       \* invariants that do not apply to the run (files of other writers: exact accounting, key order)
InvNames == {"FlagsSane", "CleanIsDurable", "Accounting", "KeysOK", "CellsOK", "CatalogOK", "Limits"} \ InvSkip
InvHolds(n, s) ==
  CASE n = "FlagsSane"      -> (CleanS(s) => ~s.dirty.sum /\ ~s.dirty.pool)
    [] n = "CleanIsDurable" -> (CleanS(s) => LoadedS(s) = AbsS(s))
    [] n = "Accounting"     -> MemWFS(s) /\ (CleanS(s) => s.dpool.e = s.pool /\ s.dpool.cp = s.cp)
    [] n = "KeysOK"         -> KeysOKS(s)
    [] n = "CellsOK"        -> CellsOKS(s)
    [] n = "CatalogOK"      -> CatalogOKS(s)
    [] n = "Limits"         -> LimitsS(s)
StepProps == {"Atomic", "Frame", "CloseReopen", "ReadOnlyQuiet"}
PropHolds(n, s, ev, s1) ==
  CASE n = "Atomic"        -> AtomicStep(s, ev, s1)
    [] n = "Frame"         -> FrameStep(s, ev, s1)
    [] n = "CloseReopen"   -> CloseReopenStep(s, ev, s1)
    [] n = "ReadOnlyQuiet" -> QuietStep(s, ev, s1)

\* Every line is judged on its own (the state before and after are both observed), so one
\* failing step does not hide the rest of the trace: verdicts are printed, never block.
Report(tag, what) == PrintT(<<tag, l, what>>)
Judge(e, s, s1, first) ==
  LET ev == [op |-> e.op, args |-> e.args, res |-> e.res]
      badinv == {n \in InvNames : ~InvHolds(n, s1)}
      stepok == CASE e.op = "Reset"  -> TRUE      \* a new, independent run starts here
                  [] e.op = "Create" -> FreshPkg(s1)
                  [] OTHER -> ~first /\ StepOK(s, ev, s1)
      badprop == IF first \/ e.op \in {"Reset", "Create"} THEN {} ELSE {n \in StepProps : ~PropHolds(n, s, ev, s1)}
  IN /\ (Observed(e.st, s1) \/ Report("OBSERVATION-INCONSISTENT", e.op))
     /\ (stepok \/ Report("STEP-REJECTED", <<e.op, e.res>>))
     /\ (badinv = {} \/ Report("INVARIANT-VIOLATED", <<e.op, badinv>>))
     /\ (badprop = {} \/ Report("PROPERTY-VIOLATED", <<e.op, badprop>>))

TraceInit ==
  /\ l = 2
  /\ LET e == Rec[1] s1 == StateOf(e.st, [schemas |-> << >>]) IN
       /\ schemas = s1.schemas /\ tstream = s1.tstream /\ pool = s1.pool /\ cp = s1.cp
       /\ summary = s1.summary /\ dirty = s1.dirty /\ dpool = s1.dpool /\ dsum = s1.dsum
       /\ ustreams = s1.ustreams /\ sess = s1.sess /\ ptype = s1.ptype /\ ro = FALSE /\ msync = TRUE
       /\ hist = [path |-> <<>>, last |-> [op |-> e.op, args |-> e.args, res |-> e.res]]
       /\ Judge(e, s1, s1, TRUE)

TraceNext ==
  /\ l <= Len(Rec) /\ l' = l + 1
  /\ LET e == Rec[l]
         s1 == StateOf(e.st, IF e.op \in {"Reset", "Create"} THEN [schemas |-> << >>] ELSE Cur)
     IN /\ Bind(s1)
        /\ hist' = [path |-> <<>>, last |-> [op |-> e.op, args |-> e.args, res |-> e.res]]
        /\ Judge(e, Cur, s1, FALSE)

TraceSpec == TraceInit /\ [][TraceNext]_<<vars, l>>
TraceView == <<view, l>>

\* all lines were consumed (verdicts about individual lines are the printed reports)
Accepted ==
  LET d == TLCGet("stats").diameter IN
  IF d = Len(Rec) THEN TRUE
  ELSE Print(<<"TRACE-NOT-CONSUMED", d + 1, "of", Len(Rec)>>, FALSE)
=============================================================================
