-------------------------- MODULE Trace_Timestamp ----------------------------
(***************************************************************************)
(* Real-scale observations of set_creation_time / creation_time, relative  *)
(* to tick-aligned anchors so that they fit TLC's integers:                *)
(*  [a |-> anchor id, cls, din, dout, dout2, saved]                        *)
(*   din   nanoseconds added to the anchor before set_creation_time        *)
(*   dout  (returned time - anchor) in nanoseconds                         *)
(*   dout2 the same after setting the returned time again (idempotence)    *)
(*   saved dout after save + reopen (or absent)                            *)
(* "low"/"high" anchors are the ends of the representable range.           *)
(***************************************************************************)
EXTENDS Timestamp, Sequences, Json, IOUtils, TLC
Rec == ndJsonDeserialize(IOEnv.TRACE)
VARIABLE l
Good(e, prev) ==
  /\ ~e.panic
  /\ e.dout = Expected(e.cls, e.din)
  /\ e.dout2 = e.dout                                             \* setting a returned time again returns it unchanged
  /\ ("saved" \in DOMAIN e => e.saved = e.dout)
  /\ (e.cls \in {"post", "pre", "epoch"} => (e.dout - e.din < Tick /\ e.din - e.dout < Tick))
  /\ ((prev.a = e.a /\ prev.din <= e.din) => prev.dout <= e.dout)   \* monotonic within an anchor
TInit == l = 1 /\ t = 0
TNext == /\ l <= Len(Rec) /\ l' = l + 1 /\ UNCHANGED t
        /\ (Good(Rec[l], IF l > 1 THEN Rec[l - 1] ELSE Rec[l]) \/ PrintT(<<"STEP-REJECTED", l, <<Rec[l].cls, Rec[l].din, Rec[l].dout>>>>))
TSpec == TInit /\ [][TNext]_<<l, t>>
Accepted == IF TLCGet("stats").diameter - 1 = Len(Rec) THEN TRUE
            ELSE Print(<<"TRACE-NOT-CONSUMED", TLCGet("stats").diameter, "of", Len(Rec)>>, FALSE)
=============================================================================
