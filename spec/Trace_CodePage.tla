--------------------------- MODULE Trace_CodePage ----------------------------
(***************************************************************************)
(* C14 observations.  Lines:                                               *)
(*  [k |-> "id", i, got]      CodePage::from_id(i) mapped to its id (-1 none)*)
(*  [k |-> "page", id, name, back]  id()/name() of each page reached        *)
(*  [k |-> "enc" | "dec" | "loop" | "panic", ...]   a DISAGREEMENT with the *)
(*      table oracle found by the exhaustive sweep: never acceptable        *)
(***************************************************************************)
EXTENDS CodePage, Json, IOUtils
Rec == ndJsonDeserialize(IOEnv.TRACE)
VARIABLE l
Good(e) ==
  CASE e.k = "id"   -> e.got = FromId(e.i)
    [] e.k = "page" -> e.id \in Ids /\ e.back = e.id /\ Len(e.name) > 0
    [] OTHER -> FALSE
TInit == l = 1 /\ input = <<>> /\ pos = 1 /\ out = <<>> /\ done = TRUE
TNext == /\ l <= Len(Rec) /\ l' = l + 1 /\ UNCHANGED vars
         /\ (Good(Rec[l]) \/ PrintT(<<"STEP-REJECTED", l, Rec[l].k>>))
TSpec == TInit /\ [][TNext]_<<l, vars>>
\* all 26 pages must have been reached through from_id
AllPages == {Rec[k].id : k \in {j \in 1..Len(Rec) : Rec[j].k = "page"}} = Ids
Accepted == IF TLCGet("stats").diameter - 1 = Len(Rec) /\ AllPages THEN TRUE
            ELSE Print(<<"TRACE-NOT-CONSUMED", TLCGet("stats").diameter, "of", Len(Rec), AllPages>>, FALSE)
=============================================================================
