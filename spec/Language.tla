------------------------------ MODULE Language -------------------------------
(***************************************************************************)
(* C17: language identifiers and tags over an ABSTRACT language table.     *)
(* A code is <<lang, sub>> (primary language id, sublanguage id); a tag is *)
(* <<lang>> (bare language), <<lang, sub>> (regional variant) or Und.      *)
(* A table is a set of known languages, each with a set of known           *)
(* sublanguages.  The laws of C17 are checked by TLC for ALL small tables;  *)
(* Fallback = 4 is the pinned design (an unknown region falls back to      *)
(* sublanguage 4, which is a real region for several languages) and makes  *)
(* TLC produce the counterexample; Fallback = 0 is the intended design.    *)
(***************************************************************************)
EXTENDS Integers, FiniteSets, Sequences

CONSTANTS Langs, Subs, Fallback
Und == <<0>>

VARIABLE T          \* the table: function from a subset of Langs to subsets of Subs
Known(l) == l \in DOMAIN T
Tag(code) == IF ~Known(code[1]) THEN Und
             ELSE IF code[2] \in T[code[1]] THEN <<code[1], code[2]>> ELSE <<code[1]>>
\* a tag string names a language part and possibly a region part (region 9 = a region no table has)
FromTag(tag) == IF tag = Und \/ ~Known(tag[1]) THEN <<0, 0>>
                ELSE IF Len(tag) = 1 THEN <<tag[1], 0>>
                ELSE IF tag[2] \in T[tag[1]] THEN <<tag[1], tag[2]>> ELSE <<tag[1], Fallback>>

Codes == {<<l, s>> : l \in Langs \cup {0, 99}, s \in Subs \cup {0, 9}}
Tags == {<<l>> : l \in Langs \cup {99}} \cup {<<l, s>> : l \in Langs \cup {99}, s \in Subs \cup {9}} \cup {Und}

Init == T \in UNION {[D -> (SUBSET Subs) \ {{}}] : D \in SUBSET Langs}
Next == UNCHANGED T
Spec == Init /\ [][Next]_T

RoundTrip == \A c \in Codes : Tag(FromTag(Tag(c))) = Tag(c)
TableTags == \A l \in DOMAIN T : /\ FromTag(<<l>>) = <<l, 0>> \/ 0 \in T[l]
                                 /\ \A s \in T[l] : FromTag(<<l, s>>) = <<l, s>> /\ Tag(<<l, s>>) = <<l, s>>
UnknownLang == \A t \in Tags : ~Known(t[1]) => FromTag(t) = <<0, 0>>
\* a known language with an unknown region never becomes a different, known regional variant
NoForeignRegion == \A t \in Tags : (Len(t) = 2 /\ Known(t[1]) /\ t[2] \notin T[t[1]]) => Len(Tag(FromTag(t))) = 1
=============================================================================
