------------------------------- MODULE MC_Expr -------------------------------
(***************************************************************************)
(* C13: bounded-exhaustive enumeration of expression trees with TLC as the *)
(* oracle.  Every transition is one case [e, row, want] where want is the  *)
(* SET of results the specification admits; the harness builds e through   *)
(* the public combinators (literal operands exercise construction-time     *)
(* folding, column operands lazy evaluation), evaluates it on a real row   *)
(* and as the condition of select / update / delete.                       *)
(***************************************************************************)
EXTENDS Expr, Json

CONSTANT Depth2Leaves      \* "small" | "large"

\* column names X1..X3 (integers), Y1..Y3 (strings)
XN(k) == <<88, 48 + k>>
YN(k) == <<89, 48 + k>>
RowNames == <<XN(1), XN(2), XN(3), YN(1), YN(2), YN(3)>>

Lits == {Null, IntV(0), IntV(1), IntV(-1), IntV(2), IntV(31), IntV(32), IntV(MinI32), IntV(MaxI32),
         StrV(<<>>), StrV(<<97>>), StrV(<<98>>),
         StrV(<<48>>), StrV(<<49, 48>>)}          \* "0", "10": strings that look like numbers are strings
\* values a column can hold: i32::MIN is the null marker of the format and "" is stored as null
ColVals == Lits \ {IntV(MinI32), StrV(<<>>)}

\* a leaf is [lit |-> v] or [cv |-> v] (a column holding v)
Leaves(ls, cs) == {[lit |-> v] : v \in ls} \cup {[cv |-> v] : v \in cs}
L1 == Leaves(Lits, ColVals)
L2 == IF Depth2Leaves = "small"
      THEN Leaves({IntV(1), IntV(MinI32), StrV(<<97>>)}, {IntV(MaxI32)})
      ELSE Leaves({Null, IntV(1), IntV(-1), IntV(MinI32), IntV(MaxI32), IntV(32), StrV(<<97>>)},
                  {IntV(MaxI32), IntV(-1), StrV(<<97>>)})

\* place leaf number k: a column leaf of an integer/null value uses Xk, of a string value Yk
LeafExpr(lf, k) == IF "lit" \in DOMAIN lf THEN Lit(lf.lit)
                   ELSE IF IsStr(lf.cv) THEN Col(YN(k)) ELSE Col(XN(k))
RowFor(lfs) ==     \* lfs: sequence of up to 3 leaves
  LET xv(k) == IF k <= Len(lfs) /\ "cv" \in DOMAIN lfs[k] /\ ~IsStr(lfs[k].cv) THEN lfs[k].cv ELSE Null
      yv(k) == IF k <= Len(lfs) /\ "cv" \in DOMAIN lfs[k] /\ IsStr(lfs[k].cv) THEN lfs[k].cv ELSE Null
  IN [names |-> RowNames, vals |-> <<xv(1), xv(2), xv(3), yv(1), yv(2), yv(3)>>]

Case(e, lfs) == LET row == RowFor(lfs) IN [e |-> e, row |-> row.vals, want |-> SetToSeq(EvalSet(e, row))]

\* all trees with a given top operator
CasesTop(op) ==
  IF op \in UnOps THEN
       {Case(Un(op, LeafExpr(a, 1)), <<a>>) : a \in L1}
       \cup {Case(Un(op, Bin(o2, LeafExpr(a, 1), LeafExpr(b, 2))), <<a, b>>) : o2 \in BinOps, a \in L2, b \in L2}
       \cup {Case(Un(op, Un(o2, LeafExpr(a, 1))), <<a>>) : o2 \in UnOps, a \in L1}
  ELSE {Case(Bin(op, LeafExpr(a, 1), LeafExpr(b, 2)), <<a, b>>) : a \in L1, b \in L1}
       \cup {Case(Bin(op, Bin(o2, LeafExpr(a, 1), LeafExpr(b, 2)), LeafExpr(c, 3)), <<a, b, c>>) :
               o2 \in BinOps, a \in L2, b \in L2, c \in L2}
       \cup {Case(Bin(op, LeafExpr(a, 1), Bin(o2, LeafExpr(b, 2), LeafExpr(c, 3))), <<a, b, c>>) :
               o2 \in BinOps, a \in L2, b \in L2, c \in L2}
       \cup {Case(Bin(op, Un(o2, LeafExpr(a, 1)), LeafExpr(b, 2)), <<a, b>>) : o2 \in UnOps, a \in L1, b \in L2}
       \cup {Case(Bin(op, LeafExpr(a, 1), Un(o2, LeafExpr(b, 2))), <<a, b>>) : o2 \in UnOps, a \in L2, b \in L1}

\* Families beyond depth 2, where construction-time rewrites would have something to chew on:
\* (1) two chains of comparisons of a column with literals, joined by and/or (depth 3, four comparison leaves)
\* (2) two shifts in a row with literal counts around the valid range 0..31 (a count outside it makes the result null,
\*     whatever the other count is)
RowXY(x1, x2) == [names |-> RowNames, vals |-> <<IntV(x1), IntV(x2), Null, Null, Null, Null>>]
CaseOn(e, row) == [e |-> e, row |-> row.vals, want |-> SetToSeq(EvalSet(e, row))]
Cmp(p, k, v) == Bin(p, Col(XN(k)), Lit(IntV(v)))
ChainCases ==
  {CaseOn(Bin(o1, Bin(o2, Cmp(p, 1, q[1]), Cmp(p, 1, q[2])), Bin(o3, Cmp(p, 2, q[3]), Cmp(p, 2, q[4]))), RowXY(x1, x2)) :
     o1 \in {"or", "and"}, o2 \in {"or", "and"}, o3 \in {"or", "and"}, p \in {"eq", "ne", "lt"},
     q \in {<<1, 2, 8, 16>>, <<1, 1, 8, 8>>, <<1, 8, 8, 1>>}, x1 \in {1, 8}, x2 \in {8, 16}}
  \cup {CaseOn(Bin("or", Bin("or", Cmp("eq", 1, 1), Cmp("eq", 2, 8)), Bin("or", Cmp("eq", 1, 2), Cmp("eq", 2, 16))), RowXY(x1, x2)) : x1 \in {1, 2, 8}, x2 \in {8, 16, 1}}
ShiftCounts == {-1, 0, 1, 2, 30, 31, 32, 33, MinI32 + 5, MaxI32}
ShiftCases ==
  {CaseOn(Bin(s2, Bin(s1, Col(XN(1)), Lit(IntV(m))), Lit(IntV(n))), RowXY(x, 0)) :
     s1 \in {"shl", "shr"}, s2 \in {"shl", "shr"}, m \in ShiftCounts, n \in ShiftCounts, x \in {5, -1, MaxI32}}

VARIABLES stage, case
vars == <<stage, case>>
Init == stage \in (UnOps \cup BinOps \cup {"chains", "shifts"}) /\ case = [none |-> 0]
Next == /\ stage # "done" /\ stage' = "done"
        /\ case' \in (IF stage = "chains" THEN ChainCases ELSE IF stage = "shifts" THEN ShiftCases ELSE CasesTop(stage))
Spec == Init /\ [][Next]_vars

\* the law Eval(Fold(e)) = Eval(e): folding literal sub-expressions never changes the admitted results
FoldLaw == stage = "done" =>
   LET r == [names |-> RowNames, vals |-> case.row] IN
   \/ EvalSet(Fold(case.e), r) \subseteq EvalSet(case.e, r)
\* the result depends on the names and values of the row only, not on the order of its columns
Reversed(q) == [k \in 1..Len(q) |-> q[Len(q) + 1 - k]]
LayoutFree == stage = "done" =>
   EvalSet(case.e, [names |-> RowNames, vals |-> case.row]) = EvalSet(case.e, [names |-> Reversed(RowNames), vals |-> Reversed(case.row)])
\* every admitted result is a value; comparisons and logic give 0/1
ResultShape == stage = "done" =>
   /\ case.want # <<>>
   /\ (IsBin(case.e) /\ case.e.bin \in {"eq", "ne", "lt", "le", "gt", "ge", "and", "or"})
         => \A k \in 1..Len(case.want) : case.want[k] \in {IntV(0), IntV(1)}

Emit == PrintT(<<"CASE", ToJson(case')>>)
=============================================================================
