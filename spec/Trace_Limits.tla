---------------------------- MODULE Trace_Limits -----------------------------
(***************************************************************************)
(* C20 at real scale.  The states are too large to log, so each line       *)
(* carries counters and digests:                                           *)
(*  [limit, n, res, same, reopen, how]                                     *)
(*   limit  which capacity the scenario approaches                         *)
(*   n      the quantity the operation would bring it to                   *)
(*   res    "Ok" | "Err" | "panic" of the operation                        *)
(*   same   after Err: the package digest is unchanged;                    *)
(*          after Ok: the digest after save + reopen equals the one before *)
(*   reopen "Ok" | "Err" | "panic": Package::open of the saved bytes       *)
(* The guards are those of Msi.tla / Schema.tla / StreamName.tla with the  *)
(* real constants.                                                         *)
(***************************************************************************)
EXTENDS Integers, Sequences, Json, IOUtils, TLC
Rec == ndJsonDeserialize(IOEnv.TRACE)
Limit(k) == CASE k = "cols" -> 32          \* MaxCols
              [] k = "rows" -> 65536       \* MaxRows
              [] k = "strings" -> 65535    \* MaxRefs (two-byte references)
              [] k = "tname" -> 32         \* _Validation.Table width (the packing limit is 60)
              [] k = "cname" -> 32         \* _Validation.Column width
              [] k = "sname" -> 62         \* 31 UTF-16 units of two packed characters
              [] k = "sname16" -> 31       \* 31 UTF-16 units of one unpackable character each
\* exact accounting at the count limit (Pool!PoolWF on the entries of one string, decoded from the saved bytes):
\* every entry's count is the number of cells referring to it, no count exceeds 65535, an unused entry is empty
GoodAccounting(e) ==
  /\ "error" \notin DOMAIN e
  /\ \A k \in 1..Len(e.entries) : e.entries[k].rc = e.entries[k].cells /\ e.entries[k].rc <= 65535
  /\ e.stale = 0
Good(e) ==
  IF e.limit = "refcount" THEN GoodAccounting(e) ELSE
  /\ e.res \in {"Ok", "Err"}                                   \* never a panic
  /\ (e.n <= Limit(e.limit)) = (e.res = "Ok")                  \* inside the limit accepted, beyond refused
  /\ e.same                                                    \* refused: unchanged; accepted: round-trips
  /\ e.reopen = "Ok"                                           \* never a file the library refuses to read
VARIABLE l
Init == l = 1
Next == /\ l <= Len(Rec) /\ l' = l + 1
        /\ (Good(Rec[l]) \/ PrintT(<<"STEP-REJECTED", l, IF Rec[l].limit = "refcount" THEN <<Rec[l].limit, Rec[l].how, Rec[l].entries, Rec[l].stale>>
                                                              ELSE <<Rec[l].limit, Rec[l].how, Rec[l].n, Rec[l].res, Rec[l].same, Rec[l].reopen>>>>))
Spec == Init /\ [][Next]_l
Accepted == IF TLCGet("stats").diameter - 1 = Len(Rec) THEN TRUE
            ELSE Print(<<"TRACE-NOT-CONSUMED", TLCGet("stats").diameter, "of", Len(Rec)>>, FALSE)
=============================================================================
