------------------------------ MODULE CodePage -------------------------------
(***************************************************************************)
(* C14.  What has structure in the code-page property:                     *)
(*  1. IDENTITY: the table id <-> page; lookup and reverse lookup are      *)
(*     mutually inverse (0 is a documented alias of the default page).     *)
(*  2. THE CHUNKED ENCODE LOOP: the library encodes into a fixed buffer of *)
(*     BufLen bytes; the encoder may stop early with "output full" (it is  *)
(*     allowed to demand up to Slack free bytes before converting another  *)
(*     character), reports an unmappable character after consuming it, or  *)
(*     finishes.  The loop appends what was written, '?' for unmappable,   *)
(*     and continues.  For EVERY behaviour of such an encoder the output   *)
(*     must be the concatenation of the per-character encodings.           *)
(* The contents of the 26 character tables are data, not behaviour: they   *)
(* are swept exhaustively by the harness against a table oracle.           *)
(***************************************************************************)
EXTENDS Integers, Sequences, FiniteSets, TLC

\* --- 1. identity ---------------------------------------------------------
Ids == {932, 936, 949, 950, 951, 1250, 1251, 1252, 1253, 1254, 1255, 1256, 1257, 1258,
        10000, 10007, 20127, 28591, 28592, 28593, 28594, 28595, 28596, 28597, 28598, 65001}
Default == 65001
\* from_id as a function to the page's own id (-1: no such page)
FromId(i) == IF i = 0 THEN Default ELSE IF i \in Ids THEN i ELSE -1
IdentityLaws == /\ Cardinality(Ids) = 26
                /\ \A p \in Ids : FromId(p) = p                                 \* from_id(id(p)) = p
                /\ \A i \in (Ids \cup {0, -1, 1, 437, 850, 1200, 65000}) : (FromId(i) # -1 /\ i # 0) => FromId(i) = i

ASSUME IdentityLaws

\* --- 2. the chunked loop -------------------------------------------------
CONSTANTS BufLen, Slack, MaxLen
\* a character class is its encoded width 1..4, or 0 for "unmappable"
Classes == 0..4
Enc(c) == IF c = 0 THEN <<63>> ELSE [k \in 1..c |-> 100 + c]                    \* '?' or c bytes
RECURSIVE Concat(_)
Concat(s) == IF s = <<>> THEN <<>> ELSE Enc(s[1]) \o Concat(SubSeq(s, 2, Len(s)))

VARIABLES input, pos, out, done
vars == <<input, pos, out, done>>
LInit == input \in UNION {[1..n -> Classes] : n \in 0..MaxLen} /\ pos = 1 /\ out = <<>> /\ done = FALSE
\* one call of the encoder on input[pos..] with an empty buffer: it converts k >= 0 mappable characters
\* (whose bytes fit), then stops because (a) the input is exhausted, (b) the next character is
\* unmappable (it is consumed), or (c) the buffer is (nearly) full
Call ==
  /\ ~done
  /\ \E k \in 0..(Len(input) - pos + 1) :
       LET chunk == SubSeq(input, pos, pos + k - 1)
           bytes == Concat(chunk)
           next == pos + k
       IN /\ \A j \in 1..k : chunk[j] # 0
          /\ Len(bytes) <= BufLen
          /\ \/ /\ next > Len(input)                                  \* InputEmpty
                /\ out' = out \o bytes /\ pos' = next /\ done' = TRUE
             \/ /\ next <= Len(input) /\ input[next] = 0               \* Unmappable: consumed, '?' appended
                /\ out' = out \o bytes \o <<63>> /\ pos' = next + 1 /\ done' = FALSE
             \/ /\ next <= Len(input) /\ input[next] # 0               \* OutputFull: not enough room for the next one
                /\ Len(bytes) + input[next] + Slack > BufLen
                /\ (k > 0 \/ input[next] + Slack <= BufLen => FALSE)   \* progress: an empty buffer always takes one character
                /\ out' = out \o bytes /\ pos' = next /\ done' = FALSE
  /\ UNCHANGED input
LSpec == LInit /\ [][Call]_vars
LoopCorrect == done => out = Concat(input)
Prefix == out = Concat(SubSeq(input, 1, pos - 1))
=============================================================================
