------------------------------ MODULE Trace_Expr -----------------------------
(***************************************************************************)
(* impl -> spec for C13 / C12: random expression trees (depth <= 6) and    *)
(* random select trees (depth <= 4) evaluated by the library, judged by    *)
(* the reference semantics.                                                *)
(*  [k |-> "e", e, names, vals, got, panic]                                *)
(*  [k |-> "q", a, b, c (rows of tables A, B and C), q, got, panic]        *)
(* C(K key, S nullable string, N i32 not null) brings string comparisons   *)
(* into join conditions, a non-nullable column under left joins, and up to *)
(* five rows per operand.                                                  *)
(***************************************************************************)
EXTENDS MC_Query, IOUtils
Rec == ndJsonDeserialize(IOEnv.TRACE)
VARIABLE l
C == <<67>>  S == <<83>>  N == <<78>>
ColsC == <<IntCol(K, "i16", FALSE, TRUE), StrCol(S, 0, TRUE, FALSE, <<>>), IntCol(N, "i32", FALSE, FALSE)>>
Db3(x) == [t \in {A, B, C} |-> IF t = C THEN [cols |-> ColsC, rows |-> x.c] ELSE DbOf(x)[t]]
Good(x) ==
  /\ ~x.panic
  /\ IF x.k = "e" THEN x.got \in EvalSet(x.e, [names |-> x.names, vals |-> x.vals])
     ELSE LET r == SelectV(x.q, Db3(x)) IN
          IF ~IsErr(r) /\ ~r.ok.det THEN Print(<<"UNSPEC", l>>, TRUE)      \* the result is not determined
          ELSE x.got = ResultJ(r)
TInit == l = 1 /\ db = [a |-> <<>>, b |-> <<>>] /\ case = [none |-> 0]
TNext == /\ l <= Len(Rec) /\ l' = l + 1 /\ UNCHANGED <<db, case>>
         /\ (Good(Rec[l]) \/ PrintT(<<"STEP-REJECTED", l, Rec[l].k>>))
TSpec == TInit /\ [][TNext]_<<l, db, case>>
Accepted == IF TLCGet("stats").diameter - 1 = Len(Rec) THEN TRUE
            ELSE Print(<<"TRACE-NOT-CONSUMED", TLCGet("stats").diameter, "of", Len(Rec)>>, FALSE)
=============================================================================
