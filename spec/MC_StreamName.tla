--------------------------- MODULE MC_StreamName -----------------------------
(* TLC checks, over all names up to length MaxLen from an adversarial       *)
(* alphabet, that the acceptance predicate makes the packing injective and  *)
(* lossless -- and (AsIs = TRUE) that the pinned predicate does not.        *)
EXTENDS StreamName, TLC
CONSTANTS MaxLen, AsIs
Alphabet == <<48, 65, 97, 46, 95, 32, 233, 14336, 16383, 18431, 18432, 18495, 18496, 47, 5, 128512>>
RECURSIVE Names(_)
Names(k) == IF k = 0 THEN {<<>>} ELSE LET s == Names(k - 1) IN s \cup {Append(x, Alphabet[i]) : x \in s, i \in 1..Len(Alphabet)}
OK(n) == IF AsIs THEN StreamNameOKAsIs(n) ELSE StreamNameOK(n)
VARIABLES a
Init == a \in {n \in Names(MaxLen) : OK(n)}
Next == UNCHANGED a
Spec == Init /\ [][Next]_a
Lossless == Unpack(Pack(a)) = a
Injective == \A b \in {n \in Names(MaxLen) : OK(n)} : b # a => Pack(b) # Pack(a)
=============================================================================
