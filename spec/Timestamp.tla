------------------------------ MODULE Timestamp ------------------------------
(***************************************************************************)
(* C18: conversion between system times and Windows timestamps (ticks of   *)
(* Tick nanoseconds since an origin), around the Unix epoch, truncating    *)
(* toward the epoch on either side and saturating at both ends of the      *)
(* representable range.  Checked exhaustively on scaled constants; the     *)
(* same formulas, anchor-relative, judge real-scale observations           *)
(* (Trace_Timestamp.tla).                                                  *)
(***************************************************************************)
EXTENDS Integers

CONSTANTS Tick,        \* nanoseconds per tick (100 in the format)
          EpochTick,   \* tick number of the Unix epoch
          MaxTick      \* largest representable tick (2^64 - 1 in the format)

EpochNs == EpochTick * Tick
Min2(a, b) == IF a < b THEN a ELSE b
Max2(a, b) == IF a > b THEN a ELSE b

\* time t is in nanoseconds since the origin (may be negative or beyond the maximum)
ToTicks(t) ==
  IF t >= EpochNs THEN Min2(MaxTick, EpochTick + ((t - EpochNs) \div Tick))
  ELSE Max2(0, EpochTick - ((EpochNs - t) \div Tick))
FromTicks(k) == k * Tick
RoundTrip(t) == FromTicks(ToTicks(t))

InRange(t) == t >= 0 /\ t <= MaxTick * Tick

\* the laws of C18
Close(t)      == InRange(t) => (RoundTrip(t) - t < Tick /\ t - RoundTrip(t) < Tick)
Idempotent(t) == RoundTrip(RoundTrip(t)) = RoundTrip(t)
Monotonic(t)  == ToTicks(t) <= ToTicks(t + 1)
Saturates(t)  == (t < 0 => ToTicks(t) = 0) /\ (t > MaxTick * Tick => ToTicks(t) = MaxTick)
TowardEpoch(t) == InRange(t) => (IF t >= EpochNs THEN RoundTrip(t) <= t ELSE RoundTrip(t) >= t)

VARIABLE t
Init == t \in (-3 * Tick)..((MaxTick + 3) * Tick)
Next == UNCHANGED t
Spec == Init /\ [][Next]_t
Laws == Close(t) /\ Idempotent(t) /\ Monotonic(t) /\ Saturates(t) /\ TowardEpoch(t)

\* --- anchor-relative form for real-scale observations -----------------------------------------
\* An anchor is a tick-aligned instant; a sample is anchor + din nanoseconds (|din| small).
\* cls: "post" anchor >= epoch (and sample stays >= epoch), "pre" sample < epoch,
\*      "epoch" anchor = epoch, "low" anchor = origin, "high" anchor = last tick.
FloorT(d) == (d \div Tick) * Tick                 \* toward minus infinity
CeilT(d)  == -FloorT(-d)                          \* toward plus infinity
Expected(cls, din) ==
  CASE cls = "post"  -> FloorT(din)
    [] cls = "pre"   -> CeilT(din)
    [] cls = "epoch" -> IF din >= 0 THEN FloorT(din) ELSE CeilT(din)
    [] cls = "low"   -> IF din <= 0 THEN 0 ELSE CeilT(din)           \* the origin is before the epoch: toward the epoch is up ...
    [] cls = "high"  -> IF din >= 0 THEN 0 ELSE FloorT(din)          \* ... the maximum after it
=============================================================================
