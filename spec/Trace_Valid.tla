----------------------------- MODULE Trace_Valid -----------------------------
(***************************************************************************)
(* impl -> spec for C07: recorded answers of the library's validators on   *)
(* random strings, and the values the library itself builds from a UUID or *)
(* a language list, judged by the documented grammars of Category.tla.     *)
(* Line: [cat, s, got, built]   (built: the library constructed s itself)  *)
(***************************************************************************)
EXTENDS Category, Json, IOUtils, TLC
Rec == ndJsonDeserialize(IOEnv.TRACE)
VARIABLE l
Bad(e) == LET w == CatValid(e.cat, e.s) IN
          \/ (w = "yes" /\ ~e.got) \/ (w = "no" /\ e.got)
          \/ (e.built /\ (w # "yes" \/ ~e.got))         \* built values must be valid
          \/ e.panic
Init == l = 1
Next == /\ l <= Len(Rec) /\ l' = l + 1
        /\ (~Bad(Rec[l]) \/ PrintT(<<"STEP-REJECTED", l, <<CatValid(Rec[l].cat, Rec[l].s), Rec[l].got>>>>))
Spec == Init /\ [][Next]_l
Accepted == IF TLCGet("stats").diameter - 1 = Len(Rec) THEN TRUE
            ELSE Print(<<"TRACE-NOT-CONSUMED", TLCGet("stats").diameter, "of", Len(Rec)>>, FALSE)
=============================================================================
