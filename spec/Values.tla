------------------------------- MODULE Values -------------------------------
(***************************************************************************)
(* Cell values of an MSI database and 32-bit two's-complement arithmetic.  *)
(*                                                                         *)
(* A value is one of   [n |-> 0]  (null),  [i |-> k]  (32-bit integer),    *)
(* [s |-> cps]  (string, a sequence of Unicode code points).  The shapes   *)
(* are the ones the harness writes as JSON ({"n":0}, {"i":5}, {"s":[..]}), *)
(* so trace records are values without conversion.                         *)
(*                                                                         *)
(* TLC integers are Java ints and trap on overflow, so wrap-around         *)
(* arithmetic is done on 16-bit halves / bytes / bit vectors.              *)
(***************************************************************************)
EXTENDS Integers, Sequences, FiniteSets, SequencesExt, FiniteSetsExt, TLC

Null    == [n |-> 0]
IntV(k)  == [i |-> k]
StrV(cs) == [s |-> cs]

IsNull(v) == "n" \in DOMAIN v
IsInt(v)  == "i" \in DOMAIN v
IsStr(v)  == "s" \in DOMAIN v

MinI32 == -2147483647 - 1
MaxI32 == 2147483647

\* The file format has one representation for "" and null: what is read back
\* from storage is Norm of what was written.
Norm(v) == IF IsStr(v) /\ v.s = <<>> THEN Null ELSE v
\* TLC evaluates function constructors lazily (the body is re-evaluated on every
\* application); TLCEval turns them into explicit values once.
Strict(f) == TLCEval(f)
NormRow(r) == Strict([j \in DOMAIN r |-> Norm(r[j])])

Truthy(v) == IF IsNull(v) THEN FALSE
             ELSE IF IsInt(v) THEN v.i # 0
             ELSE v.s # <<>>

Bool(b) == IF b THEN IntV(1) ELSE IntV(0)

-----------------------------------------------------------------------------
\* Total order of values: Null < Int < Str; integers numerically; strings by
\* code point (= Rust's String order, which is byte order of UTF-8).

MinOf(S) == CHOOSE x \in S : \A y \in S : x <= y

SeqLess(a, b) ==
  LET n == IF Len(a) < Len(b) THEN Len(a) ELSE Len(b)
      d == {k \in 1..n : a[k] # b[k]}
  IN IF d = {} THEN Len(a) < Len(b) ELSE a[MinOf(d)] < b[MinOf(d)]

Rank(v) == IF IsNull(v) THEN 0 ELSE IF IsInt(v) THEN 1 ELSE 2

VLess(a, b) ==
  IF Rank(a) # Rank(b) THEN Rank(a) < Rank(b)
  ELSE IF IsInt(a) THEN a.i < b.i
  ELSE IF IsStr(a) THEN SeqLess(a.s, b.s)
  ELSE FALSE

VLeq(a, b) == a = b \/ VLess(a, b)

\* Lexicographic order on equally long tuples of values (primary keys).
KeyLess(a, b) ==
  LET d == {k \in 1..Len(a) : a[k] # b[k]}
  IN IF d = {} THEN FALSE ELSE VLess(a[MinOf(d)], b[MinOf(d)])

-----------------------------------------------------------------------------
\* 32-bit two's complement arithmetic without leaving the 32-bit range.

Lo16(a) == a % 65536                      \* 0..65535   (TLA+ % is non-negative)
Hi16(a) == a \div 65536                   \* -32768..32767 (floor division)
WrapHi(h) == ((h + 32768) % 65536) - 32768
Join16(h, l) == WrapHi(h) * 65536 + l     \* h any small integer, l in 0..65535

AddOverflows(a, b) == (a >= 0 /\ b > 0 /\ a > MaxI32 - b) \/ (a < 0 /\ b < 0 /\ a < MinI32 - b)
WrapAdd(a, b) ==
  LET l == Lo16(a) + Lo16(b)
  IN Join16(Hi16(a) + Hi16(b) + (l \div 65536), l % 65536)

\* ~b = -b - 1 never overflows; a - b = a + ~b + 1.
BitNot(a) == (-1 - a)
WrapNeg(a) == WrapAdd(BitNot(a), 1)
WrapSub(a, b) == WrapAdd(WrapAdd(a, BitNot(b)), 1)
SubOverflows(a, b) == (b < 0 /\ a > MaxI32 + b) \/ (b > 0 /\ a < MinI32 + b)

\* bytes (little endian) of the two's-complement representation
Byte(a, k) == CASE k = 0 -> Lo16(a) % 256
                [] k = 1 -> Lo16(a) \div 256
                [] k = 2 -> (Hi16(a) % 65536) % 256
                [] k = 3 -> (Hi16(a) % 65536) \div 256
FromBytes(b0, b1, b2, b3) == Join16(b3 * 256 + b2, b1 * 256 + b0)

WrapMul(a, b) ==
  LET A(k) == Byte(a, k)
      B(k) == Byte(b, k)
      s0 == A(0)*B(0)
      s1 == A(0)*B(1) + A(1)*B(0) + (s0 \div 256)
      s2 == A(0)*B(2) + A(1)*B(1) + A(2)*B(0) + (s1 \div 256)
      s3 == A(0)*B(3) + A(1)*B(2) + A(2)*B(1) + A(3)*B(0) + (s2 \div 256)
  IN FromBytes(s0 % 256, s1 % 256, s2 % 256, s3 % 256)

\* does the mathematical product leave the 32-bit range?  Decided from the
\* wrapped product: for a \notin {0, -1} it overflowed iff p / a # b.
\* truncating division, b # 0, not (MinI32, -1)
TruncDivPos(a, b) ==            \* b > 0
  LET q == a \div b IN IF a < 0 /\ a % b # 0 THEN q + 1 ELSE q
TruncDiv(a, b) ==
  IF b > 0 THEN TruncDivPos(a, b)
  ELSE IF b = MinI32 THEN (IF a = MinI32 THEN 1 ELSE 0)
  ELSE -TruncDivPos(a, -b)

MulOverflows(a, b) ==
  IF a = 0 \/ b = 0 THEN FALSE
  ELSE IF a = -1 THEN b = MinI32
  ELSE IF b = -1 THEN a = MinI32
  ELSE TruncDiv(WrapMul(a, b), a) # b

\* bit vectors, index 1 = least significant bit
Bits(a) == [k \in 1..32 |->
              IF k <= 16 THEN (Lo16(a) \div (2^(k-1))) % 2
              ELSE ((Hi16(a) % 65536) \div (2^(k-17))) % 2]
Half(bits, from) ==          \* value of 16 bits starting at index from
  LET w(k) == bits[from + k] * (2^k)
  IN w(0)+w(1)+w(2)+w(3)+w(4)+w(5)+w(6)+w(7)+w(8)+w(9)+w(10)+w(11)+w(12)+w(13)+w(14)+w(15)
FromBits(bits) == Join16(Half(bits, 17), Half(bits, 1))

BitAnd(a, b) == LET x == Bits(a) y == Bits(b) IN FromBits([k \in 1..32 |-> x[k] * y[k]])
BitOr(a, b)  == LET x == Bits(a) y == Bits(b) IN FromBits([k \in 1..32 |-> IF x[k] + y[k] > 0 THEN 1 ELSE 0])
BitXor(a, b) == LET x == Bits(a) y == Bits(b) IN FromBits([k \in 1..32 |-> (x[k] + y[k]) % 2])

\* shifts with a count already reduced to 0..31
ShlN(a, n) == LET x == Bits(a) IN FromBits([k \in 1..32 |-> IF k - n >= 1 THEN x[k - n] ELSE 0])
ShrN(a, n) == LET x == Bits(a) IN FromBits([k \in 1..32 |-> IF k + n <= 32 THEN x[k + n] ELSE x[32]])
=============================================================================
