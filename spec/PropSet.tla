------------------------------- MODULE PropSet -------------------------------
(***************************************************************************)
(* C10: the \005SummaryInformation property set as raw BYTES.               *)
(* ParsePS is an independent reader written in TLA+; LayoutWF is the        *)
(* well-formedness the property demands: every property offset points at   *)
(* its typed, 4-byte-aligned value, values are contiguous, the section     *)
(* size is exact, strings are NUL-terminated with length = bytes + 1.      *)
(* 32-bit fields are read as two 16-bit halves (TLC integers are 32-bit).  *)
(***************************************************************************)
EXTENDS Integers, Sequences, FiniteSets, SequencesExt, TLC

\* b: sequence of bytes (1-based); offsets below are 0-based like in the format
U16(b, o) == b[o + 1] + 256 * b[o + 2]
\* a 32-bit field as a number; meaningful when < 2^31 (offsets, sizes, counts, lengths, type tags)
Small32(b, o) == o + 4 <= Len(b) /\ U16(b, o + 2) < 32768
U32(b, o) == U16(b, o) + 65536 * U16(b, o + 2)

FMTID == <<224, 133, 159, 242, 249, 79, 104, 16, 171, 145, 8, 0, 43, 39, 179, 217>>

HeaderWF(b) ==
  /\ Len(b) >= 56
  /\ U16(b, 0) = 65534                    \* byte-order mark FFFE
  /\ U16(b, 2) \in {0, 1}                 \* format version
  /\ U16(b, 6) \in {0, 1, 2}              \* OS kind
  /\ Small32(b, 24) /\ U32(b, 24) >= 1    \* number of sections ("reserved")
  /\ SubSeq(b, 29, 44) = FMTID
  /\ Small32(b, 44) /\ U32(b, 44) % 4 = 0 /\ U32(b, 44) + 8 <= Len(b)
  /\ Small32(b, U32(b, 44)) /\ Small32(b, U32(b, 44) + 4)
  /\ U32(b, 44) + 8 + 8 * U32(b, U32(b, 44) + 4) <= Len(b)

SecOff(b)  == U32(b, 44)
SecSize(b) == U32(b, SecOff(b))
Count(b)   == U32(b, SecOff(b) + 4)
PropId(b, k)  == U32(b, SecOff(b) + 8 + 8 * (k - 1))          \* k = 1..Count
PropOff(b, k) == U32(b, SecOff(b) + 12 + 8 * (k - 1))

Pad4(n) == ((n + 3) \div 4) * 4
S16(x) == IF x >= 32768 THEN x - 65536 ELSE x

\* the value at absolute position p: [ty, v, size] ; size = bytes occupied incl. padding, 0 = malformed
ValueAt(b, p) ==
  IF ~Small32(b, p) THEN [ty |-> -1, v |-> <<>>, size |-> 0]
  ELSE LET ty == U32(b, p) IN
    CASE ty = 2  -> IF p + 8 <= Len(b) THEN [ty |-> 2, v |-> S16(U16(b, p + 4)), size |-> 8] ELSE [ty |-> 2, v |-> 0, size |-> 0]
      [] ty = 3  -> IF p + 8 <= Len(b) THEN [ty |-> 3, v |-> <<U16(b, p + 4), U16(b, p + 6)>>, size |-> 8] ELSE [ty |-> 3, v |-> 0, size |-> 0]
      [] ty = 64 -> IF p + 12 <= Len(b) THEN [ty |-> 64, v |-> <<U16(b, p + 4), U16(b, p + 6), U16(b, p + 8), U16(b, p + 10)>>, size |-> 12]
                    ELSE [ty |-> 64, v |-> <<>>, size |-> 0]
      [] ty = 30 -> IF Small32(b, p + 4) /\ U32(b, p + 4) >= 1 /\ p + 8 + U32(b, p + 4) <= Len(b)
                    THEN LET n == U32(b, p + 4) IN
                         [ty |-> 30, v |-> SubSeq(b, p + 9, p + 8 + n - 1), size |-> IF b[p + 8 + n] = 0 THEN 8 + Pad4(n) ELSE 0]
                    ELSE [ty |-> 30, v |-> <<>>, size |-> 0]
      [] OTHER   -> [ty |-> ty, v |-> <<>>, size |-> 0]

\* the parsed property set: function id -> [ty, v]; defined when HeaderWF
Props(b) ==
  LET ks == 1..Count(b) IN
  [id \in {PropId(b, k) : k \in ks} |->
     LET k == CHOOSE j \in ks : PropId(b, j) = id
         x == ValueAt(b, SecOff(b) + PropOff(b, k))
     IN [ty |-> x.ty, v |-> x.v]]

\* the layout obligations of C10
LayoutWF(b) ==
  /\ HeaderWF(b)
  /\ LET n == Count(b)
         ks == 1..n
         ext(k) == LET x == ValueAt(b, SecOff(b) + PropOff(b, k)) IN <<PropOff(b, k), PropOff(b, k) + x.size, x.size>>
         order == SortSeq([k \in ks |-> ext(k)], LAMBDA x, y : x[1] < y[1])
     IN /\ Cardinality({PropId(b, k) : k \in ks}) = n                            \* no duplicate ids
        /\ \A k \in ks : PropOff(b, k) % 4 = 0 /\ ext(k)[3] > 0                  \* aligned, typed, well-formed
        /\ (n > 0 => order[1][1] = 8 + 8 * n)                                    \* values start right after the directory
        /\ \A k \in 1..(n - 1) : order[k][2] = order[k + 1][1]                   \* contiguous, no overlap
        /\ SecSize(b) = (IF n = 0 THEN 8 ELSE order[n][2])                       \* exact section size
        /\ SecOff(b) + SecSize(b) = Len(b)
=============================================================================
