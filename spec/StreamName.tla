----------------------------- MODULE StreamName ------------------------------
(***************************************************************************)
(* C11: MSI stream-name packing.  Runs of [0-9A-Za-z._] are packed two per *)
(* UTF-16 unit into 0x3800 + (v2 << 6) + v1, a single leftover into        *)
(* 0x4800 + v; other characters pass through; table streams are prefixed   *)
(* with U+4840.  Names are sequences of code points.                       *)
(***************************************************************************)
EXTENDS Integers, Sequences, FiniteSets

B64(c) == IF c \in 48..57 THEN c - 48
          ELSE IF c \in 65..90 THEN c - 65 + 10
          ELSE IF c \in 97..122 THEN c - 97 + 36
          ELSE IF c = 46 THEN 62 ELSE IF c = 95 THEN 63 ELSE -1
UnB64(v) == IF v < 10 THEN 48 + v ELSE IF v < 36 THEN 65 + v - 10 ELSE IF v < 62 THEN 97 + v - 36 ELSE IF v = 62 THEN 46 ELSE 95

RECURSIVE PackFrom(_, _)
PackFrom(n, k) ==
  IF k > Len(n) THEN <<>>
  ELSE IF B64(n[k]) >= 0 THEN
       (IF k + 1 <= Len(n) /\ B64(n[k + 1]) >= 0
        THEN <<14336 + B64(n[k + 1]) * 64 + B64(n[k])>> \o PackFrom(n, k + 2)
        ELSE <<18432 + B64(n[k])>> \o PackFrom(n, k + 1))
  ELSE <<n[k]>> \o PackFrom(n, k + 1)
Pack(n) == PackFrom(n, 1)

RECURSIVE UnpackFrom(_, _)
UnpackFrom(p, k) ==
  IF k > Len(p) THEN <<>>
  ELSE IF p[k] >= 14336 /\ p[k] < 18432 THEN <<UnB64((p[k] - 14336) % 64), UnB64((p[k] - 14336) \div 64)>> \o UnpackFrom(p, k + 1)
  ELSE IF p[k] >= 18432 /\ p[k] < 18496 THEN <<UnB64(p[k] - 18432)>> \o UnpackFrom(p, k + 1)
  ELSE <<p[k]>> \o UnpackFrom(p, k + 1)
Unpack(p) == UnpackFrom(p, 1)

Units(p) == Len(p) + Cardinality({k \in 1..Len(p) : p[k] >= 65536})     \* UTF-16 length

TableMarker == 18496
CfbReserved(c) == c \in {47, 92, 58, 33}              \* / \ : !  (reserved by the container)
InPackingRange(c) == c >= 14336 /\ c < 18496
\* The names the stream interface may accept: what is listed must be the name as given, so the
\* name has to survive Unpack(Pack(.)), must not be a table stream, must not be one of the
\* property-set / signature streams (which all start with U+0005), and must fit the container.
StreamNameOK(n) ==
  /\ n # <<>>
  /\ n[1] # TableMarker /\ n[1] # 5
  /\ \A k \in 1..Len(n) : ~InPackingRange(n[k]) /\ ~CfbReserved(n[k])
  /\ Units(Pack(n)) <= 31
\* the acceptance predicate of the pinned code, for the non-vacuity check (AsIs)
StreamNameOKAsIs(n) == n # <<>> /\ n[1] # TableMarker /\ Units(Pack(n)) <= 31
=============================================================================
