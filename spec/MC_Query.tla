------------------------------ MODULE MC_Query -------------------------------
(***************************************************************************)
(* C12 (and the SELECT half of C03): bounded-exhaustive enumeration of     *)
(* select trees over all small contents of two tables, with TLC evaluating *)
(* the reference semantics Query!SelectV.  One transition = one case       *)
(* [db, q, want]; want is "Err" or the result columns (name, nullable) and *)
(* rows in order.                                                          *)
(***************************************************************************)
EXTENDS Query, Json

CONSTANT Breadth          \* "small" | "large"

A == <<65>>  B == <<66>>  Z == <<90>>
K == <<75>>  V == <<86>>  W == <<87>>
Dot(t, c) == t \o <<46>> \o c

ColsA == <<IntCol(K, "i16", FALSE, TRUE), IntCol(V, "i16", TRUE, FALSE)>>
ColsB == <<IntCol(K, "i16", FALSE, TRUE), IntCol(W, "i16", TRUE, FALSE)>>

\* all contents of a table keyed by K \in {1,2} with a nullable value from {Null, 1, 2}
Vals == {Null, IntV(1), IntV(2)}
Contents == {<<>>} \cup {<<<<IntV(k), v>>>> : k \in {1, 2}, v \in Vals}
                   \cup {<<<<IntV(1), v>>, <<IntV(2), w>>>> : v \in Vals, w \in Vals}
SmallContents == {<<>>, <<<<IntV(1), Null>>>>, <<<<IntV(2), IntV(1)>>>>,
                  <<<<IntV(1), IntV(1)>>, <<IntV(2), IntV(1)>>>>, <<<<IntV(1), IntV(2)>>, <<IntV(2), Null>>>>}
Dbs == LET cs == IF Breadth = "small" THEN SmallContents ELSE Contents
       IN {[a |-> x, b |-> y] : x \in cs, y \in cs}
DbOf(d) == [t \in {A, B} |-> IF t = A THEN [cols |-> ColsA, rows |-> d.a] ELSE [cols |-> ColsB, rows |-> d.b]]

T(t) == [table |-> t]
Sel(q, cols, cond) == [sel |-> q, cols |-> cols, cond |-> cond]
Join(kind, l, r, on) == [join |-> kind, l |-> l, r |-> r, on |-> on]
True == Lit(IntV(1))
EqC(x, y) == Bin("eq", Col(x), Col(y))
EqL(x, v) == Bin("eq", Col(x), Lit(v))

Bases == {T(A), T(B), T(Z)}
\* filters and projections of a base table (depth 1)
Sels(t, c2) ==
  {Sel(T(t), cols, cond) :
     cols \in {<<>>, <<c2>>, <<c2, K>>, <<K, c2>>, <<K, K>>, <<Z>>},
     cond \in {True, EqL(c2, IntV(1)), Bin("lt", Col(K), Col(c2)), Un("not", Col(c2)), EqL(Z, IntV(1))}}
Depth1Sel == Sels(A, V) \cup Sels(B, W)
Kinds == {"inner", "left"}
\* join conditions over both sides' columns, incl. nulls in join columns and an unknown column
OnAB == {EqC(Dot(A, K), Dot(B, K)), EqC(Dot(A, V), Dot(B, W)), EqC(Dot(A, V), Dot(B, K)),
         Bin("lt", Col(Dot(A, K)), Col(Dot(B, K))), True, Lit(IntV(0)), Lit(Null),
         EqC(Dot(A, K), Dot(B, Z)), EqC(Z, Dot(B, K))}
OnAA == {EqC(Dot(A, K), Dot(A, V)), EqL(Dot(A, V), IntV(1)), True}
Joins1 == {Join(k, T(A), T(B), on) : k \in Kinds, on \in OnAB}
          \cup {Join(k, T(B), T(A), on) : k \in Kinds, on \in OnAB}
          \cup {Join(k, T(A), T(A), on) : k \in Kinds, on \in OnAA}          \* self-join: repeated names
          \cup {Join(k, T(A), T(Z), True) : k \in Kinds}                     \* unknown table
\* joins of filtered / projected sub-selects (named when only filtered, anonymous when projected)
Joins2 == {Join(k, Sel(T(A), <<>>, EqL(V, IntV(1))), T(B), on) : k \in Kinds, on \in OnAB}
          \cup {Join(k, T(A), Sel(T(B), <<W, K>>, True), on) : k \in Kinds,
                  on \in {EqC(Dot(A, K), K), EqC(Dot(A, V), W), EqC(Dot(A, K), Dot(B, K))}}
\* joins of joins and selects over joins
JJ == {Join(k2, Join(k1, T(A), T(B), EqC(Dot(A, K), Dot(B, K))), T(B), on) : k1 \in Kinds, k2 \in Kinds,
         on \in {EqC(Dot(A, V), Dot(B, W)), EqC(Dot(B, K), Dot(B, K)), True, EqC(Dot(A, Z), Dot(B, K))}}
      \cup {Join(k2, T(A), Join(k1, T(A), T(B), EqC(Dot(A, V), Dot(B, W))), on) : k1 \in Kinds, k2 \in Kinds,
         on \in {EqC(Dot(A, K), Dot(B, K)), True}}
SelJ == {Sel(j, cols, cond) :
           j \in {Join(k, T(A), T(B), EqC(Dot(A, K), Dot(B, K))) : k \in Kinds},
           cols \in {<<>>, <<Dot(B, W), Dot(A, K)>>, <<Dot(A, K), Dot(A, K)>>, <<K>>},
           cond \in {True, EqL(Dot(B, W), Null), EqL(Dot(A, V), IntV(1)), EqL(W, IntV(1))}}
\* builder chains: a second columns() replaces the first (whose names are then never looked up),
\* a second with() is AND-ed; both conditions are resolved against the unprojected input
Chains == {Sel(Sel(T(A), c1, e1), c2, e2) :
             c1 \in {<<>>, <<V>>, <<Z>>}, c2 \in {<<>>, <<K>>, <<V, K>>},
             e1 \in {True, EqL(V, IntV(1)), EqL(Z, IntV(1))}, e2 \in {True, EqL(K, IntV(2)), Un("not", Col(V))}}
          \cup {Join(k, Sel(Sel(T(A), <<V>>, True), <<K>>, EqL(V, IntV(1))), T(B), EqC(K, Dot(B, K))) : k \in Kinds}
Queries == Bases \cup Depth1Sel \cup Joins1 \cup Joins2 \cup JJ \cup SelJ \cup Chains

ResultJ(r) ==
  IF IsErr(r) THEN [err |-> 1]
  ELSE [cols |-> [k \in 1..Len(r.ok.cols) |-> [name |-> r.ok.cols[k].name, nullable |-> r.ok.cols[k].nullable]],
        rows |-> r.ok.rows]

VARIABLES db, case
Init == db \in Dbs /\ case = [none |-> 0]
Next == /\ "none" \in DOMAIN case
        /\ \E q \in Queries : case' = [db |-> db, q |-> q, want |-> ResultJ(SelectV(q, DbOf(db)))]
        /\ UNCHANGED db
Spec == Init /\ [][Next]_<<db, case>>

\* design-level sanity of the reference semantics: an inner join never yields more rows than
\* the product; a left join yields every left row at least once
Sane == "want" \in DOMAIN case /\ "join" \in DOMAIN case.q /\ "rows" \in DOMAIN case.want =>
   LET l == SelectV(case.q.l, DbOf(db)).ok r == SelectV(case.q.r, DbOf(db)).ok n == Len(case.want.rows)
   IN /\ n <= Len(l.rows) * Len(r.rows) + (IF case.q.join = "left" THEN Len(l.rows) ELSE 0)
      /\ (case.q.join = "left" => n >= Len(l.rows))
Emit == PrintT(<<"CASE", ToJson(case')>>)
=============================================================================
