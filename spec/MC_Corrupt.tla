----------------------------- MODULE MC_Corrupt ------------------------------
(***************************************************************************)
(* C09: a fault model over well-formed images.  A fault is a SITE of the   *)
(* logical image (a cell of any catalog or user table, a stream, the pool  *)
(* header, a pool entry, a field of the summary property set, the root     *)
(* class id) and a KIND of damage.  TLC enumerates all single faults and   *)
(* all pairs of a sampled subset on base images built by MC_Foreign; the   *)
(* harness applies them to the independently encoded bytes and runs every  *)
(* read operation, then every kind of mutating operation and a flush.      *)
(*                                                                         *)
(* The property states only OUTCOMES: every call returns a value or an     *)
(* error.  The specification therefore does not say which of the two a     *)
(* damaged file must produce.                                              *)
(***************************************************************************)
EXTENDS MC_Foreign

BaseChoices == [refw |-> 2, cpid |-> 1252, holes |-> "none", dup |-> FALSE, over |-> FALSE, validation |-> TRUE,
                unsorted |-> FALSE, int1 |-> FALSE, ps |-> "asc"]
Bases == {[db |-> "d2", c |-> BaseChoices], [db |-> "d2", c |-> [BaseChoices EXCEPT !.refw = 3, !.validation = FALSE]],
          [db |-> "d1", c |-> [BaseChoices EXCEPT !.holes = "empty", !.cpid = 65001]],
          [db |-> "d6", c |-> BaseChoices]}

\* kinds of damage to a cell, by the kind of column it sits in
CellKinds(isString) == IF isString THEN {"null", "dangling", "huge", "first"} ELSE {"null", "one", "max", "min"}
ColsOfT(i, t) == IF t = N_Tables THEN TablesCols ELSE IF t = N_Columns THEN ColumnsCols
                 ELSE IF t = N_Validation THEN ValidationCols ELSE Dbs[i.db].tabs[t].cols
SpecialStreams == {<<-1>>, <<-2>>, <<-3>>}      \* _StringPool, _StringData, the summary stream
StreamSites(img) ==
  {[site |-> "stream", name |-> n, kind |-> k] : n \in SpecialStreams \cup DOMAIN img.ts, k \in {"trunc1", "half", "extend", "remove", "empty"}}
PoolSites(img) ==
  {[site |-> "poolhdr", kind |-> k] : k \in {"cp1", "cp437", "longbit", "cpmax", "cpascii", "cp932", "cputf8"}}
  \cup {[site |-> "poolentry", k |-> e, kind |-> k2] : e \in {1, Len(img.pool)}, k2 \in {"len+", "lenmax", "rc0", "rc+", "rcmax", "longescape"}}
  \* the long form (an escape entry carrying the high half of a 32-bit length): lengths near 2^31 and 2^32,
  \* as the first entry and after a non-empty one
  \cup {[site |-> "poolentry", k |-> e, kind |-> k2] : e \in {1, 2}, k2 \in {"long2g", "longmax"}}
PsSites == {[site |-> "ps", field |-> f, kind |-> k] :
              f \in {"bom", "version", "os", "reserved", "fmtid", "secoff", "size", "count", "propoff", "type", "strlen", "terminator", "cptype", "cpvalue"},
              k \in {"zero", "one", "huge", "unaligned"}}
           \* the summary's code page replaced by another KNOWN page (its text then holds bytes that page does not define)
           \cup {[site |-> "ps", field |-> "cpvalue", kind |-> k] : k \in {"ascii", "sjis", "latin1"}}
\* the template property of the summary ("arch;languages") as text the library's own setters never write
TemplateSites == {[site |-> "template", kind |-> k] : k \in {"nosemi", "empty", "onlysemi", "twosemi", "badlang", "gaps"}}
\* more pool entries than two-byte references can address (unused ones appended), the flag for three-byte references not set
OtherSites == {[site |-> "clsid", kind |-> "zero"], [site |-> "clsid", kind |-> "other"], [site |-> "pooltail", kind |-> "overlong"]} \cup TemplateSites

\* every row of the catalog tables, the first and the last row of the user tables; every column, every kind of damage
AllCellSites(i, img) ==
  UNION {UNION {{[site |-> "cell", table |-> t, row |-> r, col |-> j, kind |-> k] :
                   r \in (IF Reserved(t) THEN 1..Len(img.ts[t]) ELSE {1, Len(img.ts[t])} \ {0}), k \in CellKinds(ColsOfT(i, t)[j].type = "s")} :
                 j \in 1..Len(ColsOfT(i, t))} : t \in DOMAIN img.ts}
Singles(i, img) ==
  AllCellSites(i, img) \cup StreamSites(img) \cup PoolSites(img) \cup PsSites \cup OtherSites
\* a sampled subset for pairs: catalog cells and structural sites interact most
PairPool(i, img) ==
  {s \in Singles(i, img) : (s.site = "cell" /\ s.table \in {N_Tables, N_Columns} /\ s.row = 1 /\ s.kind \in {"null", "dangling", "one"})
                           \/ (s.site = "stream" /\ s.kind \in {"trunc1", "remove"} /\ s.name \in SpecialStreams \cup {N_Columns})
                           \/ s.site = "poolhdr" \/ (s.site = "poolentry" /\ s.kind \in {"len+", "rc0"})}

VARIABLES base, faults
CInit == /\ base \in Bases /\ faults = <<>>
         \* the package variables of Msi.tla are not used by this enumeration
         /\ schemas = << >> /\ tstream = << >> /\ pool = <<>> /\ cp = 0 /\ summary = 0 /\ dirty = 0 /\ dpool = 0
         /\ dsum = 0 /\ ustreams = << >> /\ sess = "closed" /\ ptype = "" /\ ro = FALSE /\ msync = TRUE /\ hist = 0 /\ lay = 0
CNext == /\ faults = <<>>
         /\ LET img == BuildImage(Dbs[base.db], base.c) IN
            \/ \E s \in Singles(base, img) : faults' = <<s>>
            \/ \E s1 \in PairPool(base, img), s2 \in PairPool(base, img) : s1 # s2 /\ faults' = <<s1, s2>>
         /\ UNCHANGED <<base, vars, lay>>
CSpec == CInit /\ [][CNext]_<<base, faults, vars, lay>>
\* the base images are well-formed: the specification can decode them
BaseWF == LET img == BuildImage(Dbs[base.db], base.c) IN
          /\ PoolWF(img.pool, AllRowsOf(img.ts))
          /\ DOMAIN DecodeSchemas(img.ts, img.pool) = DOMAIN img.ts
CEmitBase == faults = <<>> => PrintT(<<"BASE", ToJson([id |-> base, img |-> ImgJ(base, BuildImage(Dbs[base.db], base.c))])>>)
CEmit == PrintT(<<"CASE", ToJson([base |-> base, faults |-> faults'])>>)
=============================================================================
