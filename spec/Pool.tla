-------------------------------- MODULE Pool --------------------------------
(***************************************************************************)
(* The reference-counted string pool.                                      *)
(*                                                                         *)
(* A pool is a sequence of entries [s |-> cps, rc |-> Nat]; entry k is     *)
(* referred to by the cell [r |-> k].  A cell is Null, IntV(i) or [r|->k]. *)
(* The empty string is never interned: it is stored as the null cell.      *)
(*                                                                         *)
(* Allocation is a RELATION (IncrefRel): any free slot, any equal entry    *)
(* below the count cap, or a new slot.  The pinned implementation's        *)
(* first-fit scan (IncrefFF) and a prefer-equal variant (IncrefPE) are     *)
(* deterministic refinements used by the bounded models.                   *)
(***************************************************************************)
EXTENDS Values

CONSTANTS RcCap,       \* 65535 in the format; 2 in bounded models
          MaxRefs      \* 65535 entries addressable by two-byte references

IsRef(c) == "r" \in DOMAIN c
Ref(k)   == [r |-> k]

Resolve(p, c) ==
  IF IsRef(c) THEN (IF c.r \in 1..Len(p) THEN StrV(p[c.r].s) ELSE StrV(<<>>)) ELSE c
ResolveRow(p, row)   == Strict([j \in 1..Len(row) |-> Resolve(p, row[j])])
ResolveRows(p, rows) == Strict([k \in 1..Len(rows) |-> ResolveRow(p, rows[k])])

Fresh(s) == [s |-> s, rc |-> 1]
Free     == [s |-> <<>>, rc |-> 0]

IncrefRel(p, s) ==     \* set of [pool, id]
  { [pool |-> [p EXCEPT ![k] = Fresh(s)], id |-> k] : k \in {j \in 1..Len(p) : p[j].rc = 0} }
  \cup { [pool |-> [p EXCEPT ![k].rc = @ + 1], id |-> k] :
            k \in {j \in 1..Len(p) : p[j].rc > 0 /\ p[j].s = s /\ p[j].rc < RcCap} }
  \cup { [pool |-> Append(p, Fresh(s)), id |-> Len(p) + 1] }

IncrefFF(p, s) ==      \* first index that is free or holds s below the cap
  LET hit == {k \in 1..Len(p) : p[k].rc = 0 \/ (p[k].s = s /\ p[k].rc < RcCap)}
  IN IF hit = {} THEN [pool |-> Append(p, Fresh(s)), id |-> Len(p) + 1]
     ELSE LET k == MinOf(hit) IN
          IF p[k].rc = 0 THEN [pool |-> [p EXCEPT ![k] = Fresh(s)], id |-> k]
          ELSE [pool |-> [p EXCEPT ![k].rc = @ + 1], id |-> k]

IncrefPE(p, s) ==      \* prefer an equal entry, then the lowest free slot
  LET eq == {k \in 1..Len(p) : p[k].rc > 0 /\ p[k].s = s /\ p[k].rc < RcCap}
      fr == {k \in 1..Len(p) : p[k].rc = 0}
  IN IF eq # {} THEN [pool |-> [p EXCEPT ![MinOf(eq)].rc = @ + 1], id |-> MinOf(eq)]
     ELSE IF fr # {} THEN [pool |-> [p EXCEPT ![MinOf(fr)] = Fresh(s)], id |-> MinOf(fr)]
     ELSE [pool |-> Append(p, Fresh(s)), id |-> Len(p) + 1]

CONSTANT Strategy,     \* "ff" | "pe"
         EmptyLive     \* named deviation: the empty string is interned as a live entry (pinned code); FALSE in every check
Incref(p, s) == IF Strategy = "pe" THEN IncrefPE(p, s) ELSE IncrefFF(p, s)

Decref(p, k) ==
  IF p[k].rc = 1 THEN [p EXCEPT ![k] = Free] ELSE [p EXCEPT ![k].rc = @ - 1]

\* Interning a row of values: strings left to right; "" and null are the null cell.
InternRow(p, row) ==
  FoldLeft(LAMBDA acc, v :
             IF IsStr(v) /\ (v.s # <<>> \/ EmptyLive)
             THEN LET x == Incref(acc.pool, v.s) IN [pool |-> x.pool, cells |-> Append(acc.cells, Ref(x.id))]
             ELSE [pool |-> acc.pool, cells |-> Append(acc.cells, Norm(v))],
           [pool |-> p, cells |-> <<>>], row)
InternRows(p, rows) ==
  FoldLeft(LAMBDA acc, row :
             LET x == InternRow(acc.pool, row) IN [pool |-> x.pool, rows |-> Append(acc.rows, x.cells)],
           [pool |-> p, rows |-> <<>>], rows)

ReleaseRow(p, cells) ==
  FoldLeft(LAMBDA acc, c : IF IsRef(c) THEN Decref(acc, c.r) ELSE acc, p, cells)
ReleaseRows(p, rows) == FoldLeft(LAMBDA acc, r : ReleaseRow(acc, r), p, rows)

-----------------------------------------------------------------------------
\* Accounting (C08).  allrows: the sequence of all rows (of cells) of all tables.
RefCount(allrows, k) ==
  FoldLeft(LAMBDA n, row : n + Cardinality({j \in 1..Len(row) : row[j] = Ref(k)}), 0, allrows)

PoolWF(p, allrows) ==
  /\ \A k \in 1..Len(p) :
        /\ p[k].rc = RefCount(allrows, k)          \* exact reference counts
        /\ (p[k].rc = 0) <=> (p[k].s = <<>>)       \* unused <=> empty, so no stale text
        /\ p[k].rc <= RcCap
  /\ \A r \in 1..Len(allrows) : \A j \in 1..Len(allrows[r]) :
        IsRef(allrows[r][j]) => allrows[r][j].r \in 1..Len(p)   \* no dangling reference
\* files written by other tools may over-count references and keep unused entries;
\* what must still hold: no dangling reference, no live entry with fewer counts than users
PoolLoose(p, allrows) ==
  /\ \A k \in 1..Len(p) : p[k].rc >= RefCount(allrows, k) /\ (RefCount(allrows, k) > 0 => p[k].s # <<>>)
  /\ \A r \in 1..Len(allrows) : \A j \in 1..Len(allrows[r]) :
        IsRef(allrows[r][j]) => allrows[r][j].r \in 1..Len(p)
=============================================================================
