----------------------------- MODULE Trace_Print -----------------------------
(***************************************************************************)
(* C19: each line records how an object was constructed and the tokens of  *)
(* its printed text.  TLC reads the tokens with the grammar's precedence   *)
(* (ExprText.tla) and requires the result to denote the same thing.        *)
(*  [kind |-> "expr",   e |-> tree, toks]                                  *)
(*  [kind |-> "select", q |-> select tree, toks]                           *)
(*  [kind |-> "insert" | "update" | "delete", q |-> args record, toks]     *)
(***************************************************************************)
EXTENDS ExprText, Json, IOUtils, TLC
Rec == ndJsonDeserialize(IOEnv.TRACE)
VARIABLE l

Good(e) ==
  CASE e.kind = "expr"   -> Equivalent(ParseExpr(e.toks), NormE(Fold(e.e)))
    [] e.kind = "select" -> SameQ(ParseSelect(e.toks), NormQ(e.q))
    [] e.kind = "insert" -> ParseInsert(e.toks) = [table |-> e.q.table, rows |-> e.q.rows]
    [] e.kind = "update" -> LET u == ParseUpdate(e.toks) IN
                            u.table = e.q.table /\ u.sets = e.q.sets /\ Equivalent(u.cond, NormE(Fold(e.q.cond)))
    [] e.kind = "delete" -> LET d == ParseDelete(e.toks) IN
                            d.table = e.q.table /\ Equivalent(d.cond, NormE(Fold(e.q.cond)))
    [] e.kind = "lex"    -> FALSE     \* the text is not a sequence of the grammar's tokens at all
Init == l = 1
Next == /\ l <= Len(Rec) /\ l' = l + 1
        /\ (Good(Rec[l]) \/ PrintT(<<"STEP-REJECTED", l, Rec[l].kind>>))
Spec == Init /\ [][Next]_l
Accepted == IF TLCGet("stats").diameter - 1 = Len(Rec) THEN TRUE
            ELSE Print(<<"TRACE-NOT-CONSUMED", TLCGet("stats").diameter, "of", Len(Rec)>>, FALSE)
=============================================================================
