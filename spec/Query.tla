------------------------------- MODULE Query --------------------------------
(***************************************************************************)
(* The relational semantics of the four statements, on VALUES (no string   *)
(* pool): total functions from (schema, rows, arguments) to Err or to the  *)
(* new row sequence.  This is the plain in-memory relational model that    *)
(* C03/C05/C07/C12 compare the library with.                               *)
(***************************************************************************)
EXTENDS Expr, Schema

Err == [err |-> 1]
Ok(x) == [ok |-> x]
IsErr(x) == "err" \in DOMAIN x

Names(cols) == [k \in 1..Len(cols) |-> cols[k].name]
RowOf(cols, vals) == [names |-> Names(cols), vals |-> vals]
HasCol(cols, name) == ColIndex(cols, name) # 0
KnownCols(cols, e) == \A c \in ColumnsOf(e) : HasCol(cols, c)

NormRows(rows) == Strict([k \in 1..Len(rows) |-> NormRow(rows[k])])
KeysOf(cols, rows) == Strict([k \in 1..Len(rows) |-> KeyOf(cols, rows[k])])
KeysDistinct(cols, rows) ==
  LET keys == KeysOf(cols, rows) IN Cardinality({keys[k] : k \in 1..Len(rows)}) = Len(rows)
SortByKey(cols, rows) ==
  LET keyed  == Strict([k \in 1..Len(rows) |-> <<KeyOf(cols, rows[k]), rows[k]>>])
      sorted == SortSeq(keyed, LAMBDA x, y : KeyLess(x[1], y[1]))
  IN Strict([k \in 1..Len(rows) |-> sorted[k][2]])
Ascending(cols, rows) ==
  LET keys == KeysOf(cols, rows) IN \A k \in 1..(Len(rows) - 1) : KeyLess(keys[k], keys[k + 1])

\* three-valued acceptance of a row list: "no" dominates, then "unspec"
RowsValid(cols, new) ==
  IF \E k \in 1..Len(new) : Len(new[k]) # Len(cols) THEN "no"
  ELSE LET vs == {ValidV(cols[j], new[k][j]) : k \in 1..Len(new), j \in 1..Len(cols)}
       IN IF "no" \in vs THEN "no" ELSE IF "unspec" \in vs THEN "unspec" ELSE "yes"

\* INSERT: every row valid, keys new and pairwise distinct (compared as stored,
\* i.e. "" = null); the table is kept in ascending key order.
InsertV(cols, rows, new) ==
  IF RowsValid(cols, new) # "yes" THEN Err
  ELSE LET all == rows \o NormRows(new) IN
       IF ~KeysDistinct(cols, all) THEN Err ELSE Ok(SortByKey(cols, all))

\* sets: sequence of <<column name, value>>, applied left to right
ApplySets(cols, row, sets) ==
  FoldLeft(LAMBDA r, sv : [r EXCEPT ![ColIndex(cols, sv[1])] = Norm(sv[2])], row, sets)
SetsValid(cols, sets) ==
  IF \E k \in 1..Len(sets) : ~HasCol(cols, sets[k][1]) THEN "no"
  ELSE LET vs == {ValidV(cols[ColIndex(cols, sets[k][1])], sets[k][2]) : k \in 1..Len(sets)}
       IN IF "no" \in vs THEN "no" ELSE IF "unspec" \in vs THEN "unspec" ELSE "yes"

\* UPDATE: exactly the named columns of exactly the matching rows; an update
\* that would make two keys equal is refused; rows stay in key order.
UpdateV(cols, rows, sets, cond) ==
  IF SetsValid(cols, sets) # "yes" \/ ~KnownCols(cols, cond) THEN Err
  ELSE LET new == [k \in 1..Len(rows) |->
                     IF Holds(cond, RowOf(cols, rows[k])) THEN ApplySets(cols, rows[k], sets) ELSE rows[k]]
       IN IF ~KeysDistinct(cols, new) THEN Err ELSE Ok(SortByKey(cols, new))

DeleteV(cols, rows, cond) ==
  IF ~KnownCols(cols, cond) THEN Err
  ELSE Ok(SelectSeq(rows, LAMBDA r : ~Holds(cond, RowOf(cols, r))))

-----------------------------------------------------------------------------
(* SELECT trees (C12):                                                     *)
(*   [table |-> t]                                                         *)
(*   [sel |-> tree, cols |-> <<names>>, cond |-> e]   (cols = <<>>: all)   *)
(*   [join |-> "inner" | "left", l |-> tree, r |-> tree, on |-> e]         *)
(* db: function from table name to [cols, rows] (rows of values).          *)
(* Result: Err or Ok([name, cols, rows]) where name is <<>> for anonymous  *)
(* (joined or projected) results.                                          *)
(***************************************************************************)
Prefixed(tname, cols) ==
  [k \in 1..Len(cols) |->
     IF tname = <<>> THEN cols[k] ELSE [cols[k] EXCEPT !.name = tname \o <<46>> \o @]]
AllNullable(cols) == [k \in 1..Len(cols) |-> [cols[k] EXCEPT !.nullable = TRUE]]
Nulls(n) == [k \in 1..n |-> Null]

JoinRows(kind, L, R, cols, on) ==
  LET pairsFor(lr) == SelectSeq([k \in 1..Len(R.rows) |-> lr \o R.rows[k]],
                                LAMBDA row : Holds(on, RowOf(cols, row)))
      perLeft(lr) == LET m == pairsFor(lr) IN
                     IF m = <<>> /\ kind = "left" THEN << lr \o Nulls(Len(R.cols)) >> ELSE m
  IN FoldLeft(LAMBDA acc, lr : acc \o perLeft(lr), <<>>, L.rows)

\* The Select BUILDER.  A [sel, cols, cond] node is not a nested query: it stands for the
\* builder calls  .columns(cols)  (made when cols # <<>>; it REPLACES any earlier projection)
\* and  .with(cond)  (made when cond is not the literal 1; it is AND-ed to earlier conditions)
\* applied to the Select built for q.sel.  Only the operands of a join are sub-selects.
\* Flat(q) is the builder's state: [from (a table or join node), cols, conds].
TrueLit == Lit(IntV(1))
RECURSIVE Flat(_)
Flat(q) ==
  IF "sel" \in DOMAIN q THEN
     LET f == Flat(q.sel) IN
     [from |-> f.from,
      cols |-> IF q.cols = <<>> THEN f.cols ELSE q.cols,
      conds |-> IF q.cond = TrueLit THEN f.conds ELSE Append(f.conds, q.cond)]
  ELSE [from |-> q, cols |-> <<>>, conds |-> <<>>]
\* the builder's single condition: c1.and(c2).and(c3)...
AndAll(conds) == IF conds = <<>> THEN TrueLit
                 ELSE FoldLeft(LAMBDA acc, c : Bin("and", acc, c), Head(conds), Tail(conds))

\* det: no condition met an operand combination whose result the specification leaves open
\* (overflow: null or wrapped), so the result below is THE result.
RECURSIVE SelectV(_, _)
SelectV(q, db) ==
  IF "table" \in DOMAIN q THEN
     (IF q.table \in DOMAIN db
      THEN Ok([name |-> q.table, cols |-> db[q.table].cols, rows |-> db[q.table].rows, det |-> TRUE])
      ELSE Err)
  ELSE IF "join" \in DOMAIN q THEN
     LET l == SelectV(q.l, db) r == SelectV(q.r, db) IN
     IF IsErr(l) \/ IsErr(r) THEN Err
     ELSE LET L == l.ok R == r.ok
              cols == Prefixed(L.name, L.cols) \o
                      (IF q.join = "left" THEN AllNullable(Prefixed(R.name, R.cols)) ELSE Prefixed(R.name, R.cols))
          IN IF ~KnownCols(cols, q.on) THEN Err
             ELSE Ok([name |-> <<>>, cols |-> cols, rows |-> JoinRows(q.join, L, R, cols, q.on),
                      det |-> /\ L.det /\ R.det
                              /\ \A i \in 1..Len(L.rows), k \in 1..Len(R.rows) :
                                    Deterministic(q.on, RowOf(cols, L.rows[i] \o R.rows[k]))])
  ELSE
     LET f == Flat(q)
         s == SelectV(f.from, db)
         cond == AndAll(f.conds) IN
     IF IsErr(s) THEN Err
     ELSE LET S == s.ok IN
          IF (\E k \in 1..Len(f.cols) : ~HasCol(S.cols, f.cols[k])) \/ ~KnownCols(S.cols, cond) THEN Err
          ELSE LET kept == SelectSeq(S.rows, LAMBDA r : Holds(cond, RowOf(S.cols, r)))
                   idx  == [k \in 1..Len(f.cols) |-> ColIndex(S.cols, f.cols[k])]
                   det  == S.det /\ \A n \in 1..Len(S.rows) : Deterministic(cond, RowOf(S.cols, S.rows[n]))
               IN IF f.cols = <<>> THEN Ok([name |-> S.name, cols |-> S.cols, rows |-> kept, det |-> det])
                  ELSE Ok([name |-> <<>>,
                           cols |-> [k \in 1..Len(idx) |-> S.cols[idx[k]]],
                           rows |-> [n \in 1..Len(kept) |-> [k \in 1..Len(idx) |-> kept[n][idx[k]]]],
                           det |-> det])
=============================================================================
