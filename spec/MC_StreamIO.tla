---------------------------- MODULE MC_StreamIO ------------------------------
(***************************************************************************)
(* Bounded instance of StreamIO.tla.  StreamWriter / StreamReader do not   *)
(* borrow the package: several handles can be alive while the package is   *)
(* used.  Two handle slots, two stream names, a table operation and the    *)
(* package-level flush / reopen in between: handles on DIFFERENT streams   *)
(* are independent of each other and of the tables (C11: "regardless of    *)
(* what happened to other streams or to tables").                          *)
(*                                                                         *)
(* What the documentation leaves open is modelled as such: a second handle *)
(* on a stream that has a writer, replacing or removing a stream that has  *)
(* a handle, dropping the package under live handles.  Such a step ends    *)
(* the modelled history (state "open" becomes FALSE); the harness still    *)
(* executes it and requires a value or an error - never a panic.           *)
(***************************************************************************)
EXTENDS StreamIO, Json, FiniteSets

CONSTANTS MaxW,        \* writes per history
          MaxDepth,    \* events per history
          Sizes        \* "small" | "large"

VARIABLES streams,     \* name -> chunk list (the domain is the set of streams that exist)
          hs,          \* slot -> [k: "none" | "w" | "r", name, pos]
          nw,          \* writes so far (the tag of the next write is nw + 1)
          defined,     \* FALSE after a step whose effect the documentation leaves open
          hist
vars == <<streams, hs, nw, defined, hist>>
view == <<streams, hs, nw, defined>>

Names == {"a", "b"}
Slots == {1, 2}
None == [k |-> "none", name |-> "", pos |-> 0]
Lens == IF Sizes = "small" THEN {2, 4094, 4100} ELSE {1, 2, 4095, 4096, 4097, 9000}
Seeks == IF Sizes = "small"
         THEN {<<"start", 0>>, <<"start", 1>>, <<"start", 20000>>, <<"end", 0>>, <<"end", -1>>, <<"end", 1>>, <<"cur", -1>>, <<"cur", 1>>}
         ELSE {<<"start", 0>>, <<"start", 1>>, <<"start", 4096>>, <<"start", 20000>>, <<"end", 0>>, <<"end", -1>>, <<"end", 1>>,
               <<"end", -20000>>, <<"cur", -1>>, <<"cur", 1>>, <<"cur", 0>>}
Reads == {0, 1, 4096, 10000}

Ev(op, slot, name, a, b, res) == [op |-> op, slot |-> slot, name |-> name, a |-> a, b |-> b, res |-> res]
Log(e) == hist' = [path |-> Append(hist.path, hist.last), last |-> e]
Contents(st) == [n \in Names |-> IF n \in DOMAIN st THEN [present |-> st[n]] ELSE [absent |-> 0]]
HandlesOn(n) == {s \in Slots : hs[s].k # "none" /\ hs[s].name = n}
WritersOn(n) == {s \in Slots : hs[s].k = "w" /\ hs[s].name = n}
NoHandles == \A s \in Slots : hs[s].k = "none"
Data(s) == streams[hs[s].name]
\* the streams no handle is working on: their contents are observable through a fresh reader
Quiet == {n \in Names : HandlesOn(n) = {}}
Observable(st) == [n \in Quiet |-> IF n \in DOMAIN st THEN [present |-> st[n]] ELSE [absent |-> 0]]
Undefined(e) == defined' = FALSE /\ UNCHANGED <<streams, hs, nw>> /\ Log(e)

Init == /\ streams = << >> /\ hs = [s \in Slots |-> None] /\ nw = 0 /\ defined = TRUE
        /\ hist = [path |-> <<>>, last |-> Ev("Create", 0, "", 0, "", [r |-> "Ok"])]

OpenW(s, n) ==
  /\ defined /\ hs[s].k = "none"
  /\ IF HandlesOn(n) # {} THEN Undefined(Ev("OpenW", s, n, 0, "", [r |-> "Any"]))      \* replaces a stream somebody holds
     ELSE /\ streams' = [x \in DOMAIN streams \cup {n} |-> IF x = n THEN <<>> ELSE streams[x]]
          /\ hs' = [hs EXCEPT ![s] = [k |-> "w", name |-> n, pos |-> 0]]
          /\ UNCHANGED <<nw, defined>> /\ Log(Ev("OpenW", s, n, 0, "", [r |-> "Ok", pos |-> 0]))
OpenR(s, n) ==
  /\ defined /\ hs[s].k = "none"
  /\ IF WritersOn(n) # {} THEN Undefined(Ev("OpenR", s, n, 0, "", [r |-> "Any"]))      \* a writer may hold unflushed bytes
     ELSE IF n \in DOMAIN streams
     THEN /\ hs' = [hs EXCEPT ![s] = [k |-> "r", name |-> n, pos |-> 0]]
          /\ UNCHANGED <<streams, nw, defined>> /\ Log(Ev("OpenR", s, n, 0, "", [r |-> "Ok", pos |-> 0]))
     ELSE UNCHANGED <<streams, hs, nw, defined>> /\ Log(Ev("OpenR", s, n, 0, "", [r |-> "Err"]))
Write(s, L) ==
  /\ defined /\ hs[s].k = "w" /\ nw < MaxW
  /\ streams' = [streams EXCEPT ![hs[s].name] = Splice(@, hs[s].pos, Chunk(nw + 1, 0, L))]
  /\ hs' = [hs EXCEPT ![s].pos = @ + L] /\ nw' = nw + 1 /\ UNCHANGED defined
  /\ Log(Ev("Write", s, hs[s].name, L, "", [r |-> "Ok", pos |-> hs[s].pos + L]))
Seek(s, from, off) ==
  /\ defined /\ hs[s].k # "none"
  /\ LET r == SeekTo(ChLen(Data(s)), hs[s].pos, from, off) IN
     /\ hs' = [hs EXCEPT ![s].pos = r.pos]
     /\ Log(Ev("Seek", s, hs[s].name, off, from, [r |-> r.res, pos |-> r.pos]))
  /\ UNCHANGED <<streams, nw, defined>>
FlushH(s) == /\ defined /\ hs[s].k = "w" /\ UNCHANGED <<streams, hs, nw, defined>>
             /\ Log(Ev("FlushH", s, hs[s].name, 0, "", [r |-> "Ok", pos |-> hs[s].pos]))
Read(s, n) ==
  /\ defined /\ hs[s].k = "r"
  /\ LET got == ReadAt(Data(s), hs[s].pos, n) IN
     /\ hs' = [hs EXCEPT ![s].pos = @ + ChLen(got)]
     /\ Log(Ev("Read", s, hs[s].name, n, "", [r |-> "Ok", bytes |-> got, pos |-> hs[s].pos + ChLen(got)]))
  /\ UNCHANGED <<streams, nw, defined>>
\* read_to_end: everything from the cursor on (not the whole stream), the cursor ends at the end
ReadRest(s) ==
  /\ defined /\ hs[s].k = "r"
  /\ LET got == Drop(Data(s), hs[s].pos) IN
     /\ hs' = [hs EXCEPT ![s].pos = ChLen(Data(s))]
     /\ Log(Ev("ReadRest", s, hs[s].name, 0, "", [r |-> "Ok", bytes |-> got, pos |-> ChLen(Data(s))]))
  /\ UNCHANGED <<streams, nw, defined>>
\* dropping a handle: the stream then holds exactly what was written to it
Close(s) == /\ defined /\ hs[s].k # "none" /\ hs' = [hs EXCEPT ![s] = None] /\ UNCHANGED <<streams, nw, defined>>
            /\ Log(Ev("Close", s, hs[s].name, 0, "", [r |-> "Ok"]))
RemoveS(n) ==
  /\ defined
  /\ IF HandlesOn(n) # {} THEN Undefined(Ev("Remove", 0, n, 0, "", [r |-> "Any"]))
     ELSE IF n \in DOMAIN streams
     THEN /\ streams' = [x \in DOMAIN streams \ {n} |-> streams[x]] /\ UNCHANGED <<hs, nw, defined>>
          /\ Log(Ev("Remove", 0, n, 0, "", [r |-> "Ok"]))
     ELSE UNCHANGED <<streams, hs, nw, defined>> /\ Log(Ev("Remove", 0, n, 0, "", [r |-> "Err"]))
\* a statement on a table, and the package-level flush, while handles may be alive: no effect on any stream
TableOp  == defined /\ UNCHANGED <<streams, hs, nw, defined>> /\ Log(Ev("TableOp", 0, "", 0, "", [r |-> "Ok"]))
FlushPkg == defined /\ UNCHANGED <<streams, hs, nw, defined>> /\ Log(Ev("FlushPkg", 0, "", 0, "", [r |-> "Ok"]))
\* save, close and reopen the package
Reopen == /\ defined
          /\ IF NoHandles THEN UNCHANGED <<streams, hs, nw, defined>> /\ Log(Ev("Reopen", 0, "", 0, "", [r |-> "Ok"]))
             ELSE Undefined(Ev("Reopen", 0, "", 0, "", [r |-> "Any"]))                \* the package goes away under live handles

Next == \/ \E s \in Slots : \/ \E n \in Names : OpenW(s, n) \/ OpenR(s, n)
                            \/ \E L \in Lens : Write(s, L)
                            \/ \E k \in Seeks : Seek(s, k[1], k[2])
                            \/ \E n \in Reads : Read(s, n)
                            \/ FlushH(s) \/ Close(s) \/ ReadRest(s)
        \/ \E n \in Names : RemoveS(n)
        \/ TableOp \/ FlushPkg \/ Reopen
Spec == Init /\ [][Next]_vars
Depth == Len(hist.path) < MaxDepth
\* symmetry by hand: slot 2 is used only while slot 1 is busy
SlotOrder == hs[1].k = "none" => hs[2].k = "none"

\* design-level properties
CursorInside == \A s \in Slots : hs[s].k # "none" /\ defined => hs[s].pos >= 0 /\ hs[s].pos <= ChLen(Data(s))
ChunkLaws == \A s \in Slots : hs[s].k # "none" /\ defined => Laws(Data(s), hs[s].pos)
HandlesHaveStreams == \A s \in Slots : hs[s].k # "none" => hs[s].name \in DOMAIN streams
\* a step through one handle never changes another stream (C11: independence)
Independent == [][\A n \in Names : (hist'.last.name # n /\ n \in DOMAIN streams) => (n \in DOMAIN streams' /\ streams'[n] = streams[n])]_vars
WriteLaw == [][hist'.last.op = "Write" =>
                 LET s == hist'.last.slot  L == hist'.last.a  old == Data(s)  new == streams'[hs[s].name] IN
                 /\ ChLen(new) = (IF hs[s].pos + L > ChLen(old) THEN hs[s].pos + L ELSE ChLen(old))
                 /\ ReadAt(new, hs[s].pos, L) = <<Chunk(nw + 1, 0, L)>>
                 /\ Take(new, hs[s].pos) = Take(old, hs[s].pos)
                 /\ hs'[s].pos = hs[s].pos + L]_vars              \* the cursor ends behind the bytes written
ReadOnly == [][hist'.last.op \in {"Read", "ReadRest", "Seek", "FlushH", "Close", "OpenR", "Reopen", "TableOp", "FlushPkg"} => streams' = streams]_vars
\* every edge: the path, the event with its specified result, and the contents of the streams nobody is working on
Emit == PrintT(<<"EDGE", ToJson([path |-> hist'.path, ev |-> hist'.last, quiet |-> IF defined' THEN Observable(streams') ELSE << >>])>>)
=============================================================================
