SPECIFICATION TraceSpec
CONSTANTS
  MaxCols = 32
  MaxRows = 65536
  RcCap = 65535
  MaxRefs = 65535
  Strategy = "ff"
  ExactPool = TRUE
  AsIs = {}
  EmptyLive = FALSE
  InvSkip = {}
POSTCONDITION Accepted
CHECK_DEADLOCK FALSE
