----------------------------- MODULE MC_Summary ------------------------------
(***************************************************************************)
(* C10: the summary-information model.  Ten properties and the code page;  *)
(* setters and clearers in any order; architecture and languages share the *)
(* "template" property (arch;lang,lang); SaveReopen writes the stream in   *)
(* the code page last set and reads it back.  Every transition is emitted  *)
(* and replayed on the library (getters immediately; at SaveReopen the     *)
(* getters of the reopened package, the independent parser, and the raw    *)
(* bytes for Trace_Summary).                                               *)
(***************************************************************************)
EXTENDS Values, Names, Json

CONSTANT Cfg

Absent == [absent |-> 0]
e1 == <<233>>  e2 == <<233, 233>>  e3 == <<233, 233, 233>>     \* "é": 2 bytes in UTF-8, 1 in 1252, none in 932/20127
ja == <<12354, 97>>                                           \* "あa": あ is 3 bytes in UTF-8, 2 in 932, none in 1252
zh == <<20013, 20013, 97>>                                    \* "中中a": 中 is 3 bytes in UTF-8, 2 in every CJK page

\* which characters a code page can represent (the model's tiny repertoire)
\* (facts of the reference encoder; bin/check compares this table with `mv repr` on every run)
Rep(cp, c) == \/ c < 128
              \/ (c = 233   /\ cp \in {65001, 1252, 936})
              \/ (c = 12354 /\ cp \in {65001, 932, 936, 949, 950, 951})
              \/ (c = 20013 /\ cp \in {65001, 932, 936, 949, 950, 951})
RepFacts == [cp \in {65001, 1252, 932, 936, 949, 950, 951, 20127} |-> [c \in {233, 12354, 20013} |-> Rep(cp, c)]]
Representable(cp, s) == \A k \in 1..Len(s) : Rep(cp, s[k])
\* what a string reads back as after being written in code page cp ('?' where not representable)
EncDec(cp, s) == [k \in 1..Len(s) |-> IF Rep(cp, s[k]) THEN s[k] ELSE 63]

StrFields == {"title", "subject", "author", "comments", "creating_application"}

VARIABLES p, cp, disk, hist      \* disk: what the last save left on the medium (alphabet "resave" only; a save does not
vars == <<p, cp, disk, hist>>    \* change what the getters of the SAME object report, so without it a save would be invisible
view == <<p, cp, disk>>          \* to TLC and "save, switch the code page, save again" would never be replayed)

Init0 == [title |-> StrV(TitleInstaller), subject |-> Absent, author |-> Absent, comments |-> Absent,
          creating_application |-> Absent, uuid |-> Absent, word_count |-> Absent, creation_time |-> Absent,
          tmpl |-> Absent]

\* observable values (what the getters report)
Obs(q, c) ==
  [title |-> q.title, subject |-> q.subject, author |-> q.author, comments |-> q.comments,
   creating_application |-> q.creating_application, uuid |-> q.uuid, word_count |-> q.word_count,
   creation_time |-> q.creation_time, codepage |-> IntV(c),
   arch |-> IF q.tmpl = Absent \/ q.tmpl.arch = <<>> THEN Absent ELSE StrV(q.tmpl.arch),
   languages |-> IF q.tmpl = Absent \/ q.tmpl.langs = <<>> THEN Absent ELSE [l |-> q.tmpl.langs]]

ReadBack(q, c) ==
  [f \in DOMAIN q |->
     IF f \in StrFields THEN (IF q[f] = Absent THEN Absent ELSE StrV(EncDec(c, q[f].s)))
     ELSE IF f = "tmpl" THEN (IF q.tmpl = Absent THEN Absent ELSE [arch |-> EncDec(c, q.tmpl.arch), langs |-> q.tmpl.langs])
     ELSE q[f]]
\* fields whose text the chosen code page cannot represent: the property leaves their value open
Unspec(q, c) ==
  {f \in StrFields : q[f] # Absent /\ ~Representable(c, q[f].s)}
  \cup (IF q.tmpl # Absent /\ ~Representable(c, q.tmpl.arch) THEN {"arch"} ELSE {})

E(op, args) == [op |-> op, args |-> args]
Alphabet ==
  CASE Cfg = "strings" ->
         {E("Set", [field |-> "author", value |-> StrV(s)]) : s \in {e1, e2, e3, <<97>>, <<97, 98, 99, 100>>, ja, zh,
                                                                      <<97, 0, 98>>}}       \* a NUL inside: the property is counted, not only terminated
         \cup {E("Set", [field |-> "author", value |-> Absent])}
         \cup {E("Set", [field |-> "comments", value |-> v]) : v \in {StrV(<<120>>), Absent}}
         \cup {E("Set", [field |-> "codepage", value |-> IntV(c)]) : c \in {65001, 1252, 932, 936, 949, 950, 951, 20127}}
         \cup {E("SaveReopen", [x |-> 0])}
    [] Cfg = "template" ->
         {E("Set", [field |-> "arch", value |-> v]) : v \in {StrV(<<120, 54, 52>>), StrV(e2), Absent}}
         \cup {E("Set", [field |-> "languages", value |-> v]) : v \in {[l |-> <<1033>>], [l |-> <<1033, 1036>>], Absent}}
         \cup {E("Set", [field |-> "codepage", value |-> IntV(c)]) : c \in {65001, 1252}}
         \cup {E("Set", [field |-> "comments", value |-> v]) : v \in {StrV(<<120>>), Absent}}
         \cup {E("SaveReopen", [x |-> 0])}
    [] Cfg = "resave" ->        \* several saves through ONE package object: every save writes ALL strings in the page of that moment
         {E("Set", [field |-> "author", value |-> v]) : v \in {StrV(e1), StrV(ja), Absent}}
         \cup {E("Set", [field |-> "comments", value |-> StrV(e2)])}
         \cup {E("Set", [field |-> "codepage", value |-> IntV(c)]) : c \in {65001, 1252, 932}}
         \cup {E("Save", [x |-> 0]), E("Reopen", [x |-> 0])}
    [] Cfg = "misc" ->
         {E("Set", [field |-> "title", value |-> v]) : v \in {StrV(e1), Absent}}
         \cup {E("Set", [field |-> "subject", value |-> v]) : v \in {StrV(<<115, 117>>), Absent}}
         \cup {E("Set", [field |-> "creating_application", value |-> v]) : v \in {StrV(<<97, 112, 112>>), Absent}}
         \cup {E("Set", [field |-> "uuid", value |-> v]) : v \in {StrV(<<48, 49, 50, 51, 52, 53, 54, 55, 45, 56, 57, 97, 98, 45, 99, 100, 101, 102, 45, 48, 49, 50, 51, 45, 52, 53, 54, 55, 56, 57, 97, 98, 99, 100, 101, 102>>), Absent}}
         \cup {E("Set", [field |-> "word_count", value |-> v]) : v \in {IntV(2), IntV(-1), Absent}}
         \cup {E("Set", [field |-> "creation_time", value |-> v]) : v \in {[t |-> "131343003960000000"], [t |-> "131343003961234567"], Absent}}      \* whole seconds; every 100 ns digit in use
         \cup {E("Set", [field |-> "codepage", value |-> IntV(c)]) : c \in {65001, 1252}}
         \cup {E("SaveReopen", [x |-> 0])}

Log(ev) == hist' = [path |-> Append(hist.path, hist.last), last |-> ev]

Do(ev) ==
  LET f == ev.args.field v == ev.args.value IN
  CASE ev.op = "SaveReopen" -> p' = ReadBack(p, cp) /\ cp' = cp /\ Log(ev) /\ UNCHANGED disk
    \* prev: the code page of the PREVIOUS save through this object (0: none) - "saved under one page, then under
    \* another" is a history of its own, which the saved values alone would not tell apart from a single save
    [] ev.op = "Save" -> disk' = [p |-> ReadBack(p, cp), cp |-> cp, unspec |-> Unspec(p, cp), prev |-> disk.cp * (IF disk.fresh THEN 0 ELSE 1), fresh |-> FALSE]
                         /\ UNCHANGED <<p, cp>> /\ Log(ev)
    [] ev.op = "Reopen" -> p' = disk.p /\ cp' = disk.cp /\ disk' = [disk EXCEPT !.prev = 0, !.fresh = TRUE] /\ Log(ev)
    [] f = "codepage" -> cp' = v.i /\ p' = p /\ Log(ev) /\ UNCHANGED disk
    [] f = "arch" -> /\ p' = [p EXCEPT !.tmpl = [arch |-> IF v = Absent THEN <<>> ELSE v.s,
                                               langs |-> IF p.tmpl = Absent THEN <<>> ELSE p.tmpl.langs]]
                     /\ cp' = cp /\ Log(ev) /\ UNCHANGED disk
    [] f = "languages" -> /\ p' = [p EXCEPT !.tmpl = [arch |-> IF p.tmpl = Absent THEN <<>> ELSE p.tmpl.arch,
                                                    langs |-> IF v = Absent THEN <<>> ELSE v.l]]
                          /\ cp' = cp /\ Log(ev) /\ UNCHANGED disk
    [] OTHER -> p' = [p EXCEPT ![f] = v] /\ cp' = cp /\ Log(ev) /\ UNCHANGED disk

MCInit == p = Init0 /\ cp = 65001 /\ disk = [p |-> Init0, cp |-> 65001, unspec |-> {}, prev |-> 0, fresh |-> TRUE] /\ hist = [path |-> <<>>, last |-> E("Create", [x |-> 0])]
MCNext == \E ev \in Alphabet : Do(ev)
MCSpec == MCInit /\ [][MCNext]_vars

\* design-level facts TLC checks on the model
\* saving twice in a row changes nothing (C01's idempotence for the summary stream)
Idempotent == ReadBack(ReadBack(p, cp), cp) = ReadBack(p, cp)
\* representable text survives saving exactly
Survives == \A f \in StrFields : (p[f] # Absent /\ Representable(cp, p[f].s)) => ReadBack(p, cp)[f] = p[f]
\* setting the architecture never changes the languages and vice versa
TemplateFrame == [][ (hist'.last.op = "Set" /\ hist'.last.args.field = "arch") => Obs(p', cp').languages = Obs(p, cp).languages ]_view

Emit == PrintT(<<"EDGE", ToJson([path |-> SubSeq(hist'.path, 2, Len(hist'.path)), ev |-> hist'.last,
                                 dst |-> Obs(p', cp'),
                                 unspec |-> IF hist'.last.op = "SaveReopen" THEN SetToSeq(Unspec(p, cp))
                                            ELSE IF hist'.last.op = "Reopen" THEN SetToSeq(disk.unspec) ELSE <<>>])>>)
=============================================================================
