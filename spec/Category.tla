------------------------------ MODULE Category ------------------------------
(***************************************************************************)
(* The documented grammars of the string categories that the library       *)
(* validates, as THREE-VALUED predicates over code-point sequences:        *)
(*   "yes"    the documentation says the text is valid,                    *)
(*   "no"     the documentation says it is not,                            *)
(*   "unspec" the documentation the property refers to does not decide     *)
(*            (sign characters and leading zeros in numbers, the most      *)
(*            negative integer, non-ASCII letters for case categories,     *)
(*            file-name characters for cabinets ...).                      *)
(* A check may only fail on a "yes"/"no" case.                             *)
(***************************************************************************)
EXTENDS Values, Names

IsDigit(c) == c \in 48..57
IsUpper(c) == c \in 65..90
IsLower(c) == c \in 97..122
IsAlpha(c) == IsUpper(c) \/ IsLower(c)
IsHexUp(c) == IsDigit(c) \/ c \in 65..70
Ascii(s) == \A k \in 1..Len(s) : s[k] < 128

Tail1(s) == SubSeq(s, 2, Len(s))

IdentOK(s) ==
  /\ Len(s) >= 1
  /\ (IsAlpha(s[1]) \/ s[1] = 95)
  /\ \A k \in 1..Len(s) : IsAlpha(s[k]) \/ IsDigit(s[k]) \/ s[k] = 95 \/ s[k] = 46

\* split a code-point sequence at a separator: sequence of pieces
Split(s, sep) ==
  LET pos == <<0>> \o SetToSortSeq({k \in 1..Len(s) : s[k] = sep}, <) \o <<Len(s) + 1>>
  IN [j \in 1..(Len(pos) - 1) |-> SubSeq(s, pos[j] + 1, pos[j + 1] - 1)]

AllDigits(s) == Len(s) >= 1 /\ \A k \in 1..Len(s) : IsDigit(s[k])
StripZeros(s) ==
  LET nz == {k \in 1..Len(s) : s[k] # 48}
  IN IF nz = {} THEN <<48>> ELSE SubSeq(s, MinOf(nz), Len(s))

\* magnitude comparison of canonical (no leading zero) digit strings
DigLeq(d, bound) == Len(d) < Len(bound) \/ (Len(d) = Len(bound) /\ (d = bound \/ SeqLess(d, bound)))

D65535      == <<54, 53, 53, 51, 53>>
D32767      == <<51, 50, 55, 54, 55>>
D32768      == <<51, 50, 55, 54, 56>>
D2147483647 == <<50, 49, 52, 55, 52, 56, 51, 54, 52, 55>>
D2147483648 == <<50, 49, 52, 55, 52, 56, 51, 54, 52, 56>>

\* an unsigned 16-bit component of a version / language list
Comp16(s) ==
  IF s = <<>> THEN "no"
  ELSE IF AllDigits(s) THEN
         (IF ~DigLeq(StripZeros(s), D65535) THEN "no"
          ELSE IF s = StripZeros(s) THEN "yes" ELSE "unspec")
  ELSE IF s[1] = 43 /\ AllDigits(Tail1(s)) THEN
         (IF ~DigLeq(StripZeros(Tail1(s)), D65535) THEN "no" ELSE "unspec")
  ELSE "no"

\* signed integer text with storable magnitude maxpos, reserved minimum minneg
SignedInt(s, maxpos, minneg) ==
  LET neg  == Len(s) >= 1 /\ s[1] = 45
      plus == Len(s) >= 1 /\ s[1] = 43
      body == IF neg \/ plus THEN Tail1(s) ELSE s
  IN IF ~AllDigits(body) THEN "no"
     ELSE LET m == StripZeros(body)
              canon == body = m /\ ~plus /\ ~(neg /\ m = <<48>>)
          IN IF neg THEN (IF DigLeq(m, maxpos) THEN (IF canon THEN "yes" ELSE "unspec")
                          ELSE IF m = minneg THEN "unspec" ELSE "no")
             ELSE (IF DigLeq(m, maxpos) THEN (IF canon THEN "yes" ELSE "unspec") ELSE "no")

Combine(vs) ==  \* all pieces must be valid
  IF \E k \in 1..Len(vs) : vs[k] = "no" THEN "no"
  ELSE IF \E k \in 1..Len(vs) : vs[k] = "unspec" THEN "unspec" ELSE "yes"

GuidOK(s) ==
  /\ Len(s) = 38 /\ s[1] = 123 /\ s[38] = 125
  /\ \A k \in 2..37 : IF k \in {10, 15, 20, 25} THEN s[k] = 45 ELSE IsHexUp(s[k])

SafeFileChar(c) == IsAlpha(c) \/ IsDigit(c) \/ c = 95 \/ c = 45
CabinetV(s) ==
  IF s = <<>> THEN "no"
  ELSE IF s[1] = 35 THEN (IF IdentOK(Tail1(s)) THEN "yes" ELSE "no")
  ELSE IF ~Ascii(s) THEN "unspec"
  ELSE LET parts == Split(s, 46) IN
       IF Len(parts) > 2 THEN "unspec"
       ELSE IF parts[1] = <<>> \/ Len(parts[1]) > 8 THEN "no"
       ELSE IF Len(parts) = 2 /\ Len(parts[2]) > 3 THEN "no"
       ELSE IF Len(parts) = 2 /\ parts[2] = <<>> THEN "unspec"
       ELSE IF \A k \in 1..Len(s) : SafeFileChar(s[k]) \/ s[k] = 46 THEN "yes" ELSE "unspec"

\* cat is the category's name as code points (Names!C_*); <<>> = no category
CatValid(cat, s) ==
  CASE cat = C_Identifier -> IF IdentOK(s) THEN "yes" ELSE "no"
    [] cat = C_Property   -> IF IdentOK(IF Len(s) >= 1 /\ s[1] = 37 THEN Tail1(s) ELSE s) THEN "yes" ELSE "no"
    [] cat = C_GUID       -> IF GuidOK(s) THEN "yes" ELSE "no"
    [] cat = C_Integer        -> SignedInt(s, D32767, D32768)
    [] cat = C_DoubleInteger  -> SignedInt(s, D2147483647, D2147483648)
    [] cat = C_Version  -> LET p == Split(s, 46) IN
                           IF Len(p) > 4 THEN "no" ELSE Combine([k \in 1..Len(p) |-> Comp16(p[k])])
    [] cat = C_Language -> LET p == Split(s, 44) IN Combine([k \in 1..Len(p) |-> Comp16(p[k])])
    [] cat = C_Cabinet  -> CabinetV(s)
    [] cat = C_UpperCase -> IF \E k \in 1..Len(s) : IsLower(s[k]) THEN "no"
                            ELSE IF Ascii(s) THEN "yes" ELSE "unspec"
    [] cat = C_LowerCase -> IF \E k \in 1..Len(s) : IsUpper(s[k]) THEN "no"
                            ELSE IF Ascii(s) THEN "yes" ELSE "unspec"
    [] OTHER -> "yes"
=============================================================================
