------------------------------ MODULE StreamIO -------------------------------
(***************************************************************************)
(* C11 at the granularity of the handles: what StreamWriter (Write + Seek) *)
(* and StreamReader (Read + Seek) do to the bytes of ONE binary stream.    *)
(*                                                                         *)
(* Contents are sequences of CHUNKS [t, o, n]: n bytes produced by the     *)
(* t-th write of the history, starting at offset o of that write (byte i   *)
(* of write t is a fixed function of (t, i), so a chunk list denotes a     *)
(* byte string and overwrites in the middle of earlier writes stay         *)
(* visible).  This keeps 9 000-byte streams - the container switches       *)
(* representation at 4 096 bytes - cheap for TLC.                          *)
(*                                                                         *)
(* The meaning is that of std::io: write_all at the cursor overwrites and  *)
(* extends, the cursor advances; seek within [0, len] moves the cursor and *)
(* returns it, before 0 is an error that leaves the cursor alone; BEYOND   *)
(* the end std::io leaves the behaviour to the implementation ("ErrOrOk":  *)
(* an error that changes nothing, or success - the specification follows   *)
(* the error branch and an implementation that succeeds leaves the         *)
(* modelled part); read returns the bytes from the cursor to the end, at   *)
(* most n.  write_stream creates or REPLACES the stream; a stream that is  *)
(* closed holds exactly what was written, also after the package is saved  *)
(* and reopened.                                                           *)
(***************************************************************************)
EXTENDS Integers, Sequences, SequencesExt, TLC

Chunk(t, o, n) == [t |-> t, o |-> o, n |-> n]
ChLen(cs) == FoldLeft(LAMBDA acc, c : acc + c.n, 0, cs)

\* the first k bytes / everything after the first k bytes (0 <= k <= ChLen(cs))
Take(cs, k) ==
  FoldLeft(LAMBDA acc, c :
             IF acc.left = 0 THEN acc
             ELSE IF c.n <= acc.left THEN [out |-> Append(acc.out, c), left |-> acc.left - c.n]
             ELSE [out |-> Append(acc.out, Chunk(c.t, c.o, acc.left)), left |-> 0],
           [out |-> <<>>, left |-> k], cs).out
Drop(cs, k) ==
  FoldLeft(LAMBDA acc, c :
             IF acc.skip = 0 THEN [out |-> Append(acc.out, c), skip |-> 0]
             ELSE IF c.n <= acc.skip THEN [out |-> acc.out, skip |-> acc.skip - c.n]
             ELSE [out |-> Append(acc.out, Chunk(c.t, c.o + acc.skip, c.n - acc.skip)), skip |-> 0],
           [out |-> <<>>, skip |-> k], cs).out

\* write_all of chunk c at cursor pos (pos <= ChLen(cs))
Splice(cs, pos, c) ==
  LET total == ChLen(cs) IN
  Take(cs, pos) \o <<c>> \o (IF pos + c.n < total THEN Drop(cs, pos + c.n) ELSE <<>>)

\* seek: from \in {"start", "end", "cur"}; result [res, pos]
SeekTo(len, pos, from, off) ==
  LET np == CASE from = "start" -> off [] from = "end" -> len + off [] OTHER -> pos + off IN
  IF np < 0 THEN [res |-> "Err", pos |-> pos]
  ELSE IF np > len THEN [res |-> "ErrOrOk", pos |-> pos]
  ELSE [res |-> "Ok", pos |-> np]

ReadAt(cs, pos, n) == LET k == IF pos + n > ChLen(cs) THEN ChLen(cs) - pos ELSE n IN Take(Drop(cs, pos), k)

\* laws of the chunk algebra (checked by TLC on the reachable contents)
Laws(cs, pos) ==
  /\ ChLen(Take(cs, pos)) = pos
  /\ ChLen(Drop(cs, pos)) = ChLen(cs) - pos
  /\ Take(cs, pos) \o Drop(cs, pos) = cs \/ ChLen(Take(cs, pos) \o Drop(cs, pos)) = ChLen(cs)
=============================================================================
