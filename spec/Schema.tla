------------------------------- MODULE Schema -------------------------------
(***************************************************************************)
(* Column definitions, value validity, and the way a table's schema is     *)
(* stored in the catalog tables _Tables, _Columns and _Validation.         *)
(*                                                                         *)
(* A column is a record                                                    *)
(*   [name |-> cps, type |-> "i16" | "i32" | "s", width |-> Nat,           *)
(*    nullable, key, loc |-> BOOLEAN,                                      *)
(*    range |-> <<>> | <<min, max>>,  fk |-> <<>> | <<table cps, n>>,      *)
(*    cat |-> <<>> | category name cps,  enum |-> sequence of cps]         *)
(* (width is 0 for integer columns).                                       *)
(***************************************************************************)
EXTENDS Category

CONSTANT MaxCols      \* 32 in the library; scaled down in bounded models

MkCol(name, type, width, nullable, key, loc, range, fk, cat, enum) ==
  [name |-> name, type |-> type, width |-> width, nullable |-> nullable, key |-> key,
   loc |-> loc, range |-> range, fk |-> fk, cat |-> cat, enum |-> enum]

IntCol(name, type, nullable, key)       == MkCol(name, type, 0, nullable, key, FALSE, <<>>, <<>>, <<>>, <<>>)
StrCol(name, width, nullable, key, cat) == MkCol(name, "s", width, nullable, key, FALSE, <<>>, <<>>, cat, <<>>)

InSeq(x, s) == \E k \in 1..Len(s) : s[k] = x

-----------------------------------------------------------------------------
\* Validity of a value for a column (C07), three-valued because categories are.
ValidV(col, v) ==
  IF IsNull(v) THEN (IF col.nullable THEN "yes" ELSE "no")
  ELSE IF IsInt(v) THEN
     (IF col.type = "s" THEN "no"
      ELSE IF col.range # <<>> /\ (v.i < col.range[1] \/ v.i > col.range[2]) THEN "no"
      ELSE IF col.type = "i16" THEN (IF v.i > -32768 /\ v.i <= 32767 THEN "yes" ELSE "no")
      ELSE (IF v.i > MinI32 THEN "yes" ELSE "no"))
  ELSE
     (IF col.type # "s" THEN "no"
      ELSE IF col.enum # <<>> /\ ~InSeq(v.s, col.enum) THEN "no"
      ELSE IF col.width # 0 /\ Len(v.s) > col.width THEN "no"
      ELSE IF col.cat = <<>> THEN "yes" ELSE CatValid(col.cat, v.s))

Valid(col, v) == ValidV(col, v) = "yes"

\* What may be found in a stored cell: a valid value, or the null that a
\* stored "" reads back as (the format has one representation for both).
CellOK(col, v) ==
  ValidV(col, v) # "no" \/ (IsNull(v) /\ col.type = "s" /\ ValidV(col, StrV(<<>>)) # "no")

-----------------------------------------------------------------------------
\* The 16-bit type word of the _Columns table.
TypeWord(col) ==
  LET base == CASE col.type = "i16" -> 2 + 1024
                [] col.type = "i32" -> 4
                [] col.type = "s"   -> 2048 + col.width
                                       + (IF col.width = 0 /\ col.cat = C_Binary THEN 0 ELSE 1024)
  IN base + 256 + (IF col.loc THEN 512 ELSE 0) + (IF col.nullable THEN 4096 ELSE 0)
          + (IF col.key THEN 8192 ELSE 0)

Bit(w, b) == (w \div b) % 2 = 1

\* type-word part of a column definition as the reader reconstructs it
\* ("bad" when the integer field size is none of 1, 2, 4)
TypeOfWord(w) ==
  LET size == w % 256 IN
  IF Bit(w, 2048) THEN [type |-> "s", width |-> size]
  ELSE IF size = 4 THEN [type |-> "i32", width |-> 0]
  ELSE IF size = 2 \/ size = 1 THEN [type |-> "i16", width |-> 0]
  ELSE [type |-> "bad", width |-> 0]

JoinWith(ss, sep) ==    \* <<a, b, c>> joined with a separator code point
  IF ss = <<>> THEN <<>>
  ELSE FoldLeft(LAMBDA acc, x : acc \o <<sep>> \o x, ss[1], SubSeq(ss, 2, Len(ss)))

\* Catalog rows that describe column number k of table t.
ColumnsRow(t, k, col) == <<StrV(t), IntV(k), StrV(col.name), IntV(TypeWord(col))>>
ValidationRow(t, col) ==
  << StrV(t), StrV(col.name), StrV(IF col.nullable THEN N_Y ELSE N_N),
     IF col.range = <<>> THEN Null ELSE IntV(col.range[1]),
     IF col.range = <<>> THEN Null ELSE IntV(col.range[2]),
     IF col.fk = <<>> THEN Null ELSE StrV(col.fk[1]),
     IF col.fk = <<>> THEN Null ELSE IntV(col.fk[2]),
     IF col.cat = <<>> THEN Null ELSE StrV(col.cat),
     IF col.enum = <<>> THEN Null ELSE StrV(JoinWith(col.enum, 59)),
     Null >>

\* The column definition that reopening reconstructs from those two rows.
\* (crow may be absent: vrow = <<>> when the file has no _Validation row.)
FromCatalog(crow, vrow) ==
  LET w  == crow[4].i
      tw == TypeOfWord(w)
      has == vrow # <<>>
      vn == has /\ IsStr(vrow[3]) /\ vrow[3].s = N_Y
  IN MkCol(crow[3].s, tw.type, tw.width,
           Bit(w, 4096) \/ vn, Bit(w, 8192), Bit(w, 512),
           IF has /\ IsInt(vrow[4]) /\ IsInt(vrow[5]) THEN <<vrow[4].i, vrow[5].i>> ELSE <<>>,
           IF has /\ IsStr(vrow[6]) /\ IsInt(vrow[7]) THEN <<vrow[6].s, vrow[7].i>> ELSE <<>>,
           IF has /\ IsStr(vrow[8]) /\ InSeq(vrow[8].s, CategoryNames) THEN vrow[8].s ELSE <<>>,
           IF has /\ IsStr(vrow[9]) THEN Split(vrow[9].s, 59) ELSE <<>>)

-----------------------------------------------------------------------------
\* The fixed schemas of the catalog tables.
TablesCols  == << StrCol(N_Name, 64, FALSE, TRUE, <<>>) >>
ColumnsCols == << StrCol(N_Table, 64, FALSE, TRUE, <<>>), IntCol(N_Number, "i16", FALSE, TRUE),
                  StrCol(N_Name, 64, FALSE, FALSE, <<>>), IntCol(N_Type, "i16", FALSE, FALSE) >>
VR == <<-2147483647, 2147483647>>
ValidationCols ==
  << StrCol(N_Table, 32, FALSE, TRUE, C_Identifier),
     StrCol(N_Column, 32, FALSE, TRUE, C_Identifier),
     MkCol(N_Nullable, "s", 4, FALSE, FALSE, FALSE, <<>>, <<>>, <<>>, <<N_Y, N_N>>),
     MkCol(N_MinValue, "i32", 0, TRUE, FALSE, FALSE, VR, <<>>, <<>>, <<>>),
     MkCol(N_MaxValue, "i32", 0, TRUE, FALSE, FALSE, VR, <<>>, <<>>, <<>>),
     StrCol(N_KeyTable, 255, TRUE, FALSE, C_Identifier),
     MkCol(N_KeyColumn, "i16", 0, TRUE, FALSE, FALSE, <<1, 32>>, <<>>, <<>>, <<>>),
     MkCol(N_Category, "s", 32, TRUE, FALSE, FALSE, <<>>, <<>>, <<>>, CategoryNames),
     StrCol(N_Set, 255, TRUE, FALSE, C_Text),
     StrCol(N_Description, 255, TRUE, FALSE, C_Text) >>

Reserved(t) == t \in {N_Tables, N_Columns, N_Validation}

KeyIdx(cols) == SelectSeq([k \in 1..Len(cols) |-> k], LAMBDA k : cols[k].key)
KeyOf(cols, row) == LET ki == KeyIdx(cols) IN Strict([j \in 1..Len(ki) |-> row[ki[j]]])
ColIndex(cols, name) ==   \* 0 when absent; first match otherwise
  LET m == {k \in 1..Len(cols) : cols[k].name = name} IN IF m = {} THEN 0 ELSE MinOf(m)

\* A column definition the 16-bit type word and the catalog columns can hold
\* (C06: anything else must be refused, not silently altered).
Representable(t, col) ==
  /\ col.type = "s" => col.width <= 255
  /\ col.type # "s" => col.width = 0
  /\ \A k \in 1..Len(col.enum) : col.enum[k] # <<>> /\ ~InSeq(59, col.enum[k])
  /\ \A k \in 1..Len(ValidationCols) : Valid(ValidationCols[k], ValidationRow(t, col)[k])
  /\ \A k \in 1..Len(ColumnsCols) : Valid(ColumnsCols[k], ColumnsRow(t, 1, col)[k])

\* Structural acceptance of a create-table call (before representability).
NameOK(t) == IdentOK(t)
DistinctNames(cols) == \A a, b \in 1..Len(cols) : a # b => cols[a].name # cols[b].name
CreateOK(t, cols) ==
  /\ NameOK(t) /\ Len(cols) >= 1 /\ Len(cols) <= MaxCols
  /\ \E k \in 1..Len(cols) : cols[k].key
  /\ \A k \in 1..Len(cols) : IdentOK(cols[k].name)
  /\ DistinctNames(cols)
=============================================================================
