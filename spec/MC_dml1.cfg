SPECIFICATION MCSpec
CONSTANTS
  Cfg = "dml1"
  MaxCols = 2
  MaxRows = 3
  RcCap = 2
  MaxRefs = 60
  Strategy = "ff"
  ExactPool = TRUE
  AsIs = {}
  EmptyLive = FALSE
VIEW view
CONSTRAINT PoolBound
INVARIANTS FlagsSane CleanIsDurable Accounting KeysOK CellsOK CatalogOK Limits
PROPERTIES Refines Atomic Frame CloseReopen ReadOnlyQuiet
CHECK_DEADLOCK FALSE
