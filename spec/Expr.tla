-------------------------------- MODULE Expr --------------------------------
(***************************************************************************)
(* Expressions over rows: the 18 operators of msi::Expr with the           *)
(* documented null / truthiness rules.                                     *)
(*                                                                         *)
(* Trees are records shaped like the JSON the harness writes:              *)
(*   [lit |-> v]   [col |-> name]   [un |-> op, a |-> e]                    *)
(*   [bin |-> op, l |-> e, r |-> e]                                        *)
(* un  \in {"neg","bitnot","not"}                                          *)
(* bin \in {"eq","ne","lt","le","gt","ge","add","sub","mul","div",         *)
(*          "band","bor","bxor","shl","shr","and","or"}                    *)
(*                                                                         *)
(* Evaluation yields a SET of admissible results: a singleton everywhere   *)
(* except on arithmetic overflow and out-of-range shift counts, where the  *)
(* property (C13) admits null or the wrapped value.                        *)
(***************************************************************************)
EXTENDS Values

UnOps  == {"neg", "bitnot", "not"}
BinOps == {"eq", "ne", "lt", "le", "gt", "ge", "add", "sub", "mul", "div",
           "band", "bor", "bxor", "shl", "shr", "and", "or"}

Lit(v) == [lit |-> v]
Col(c) == [col |-> c]
Un(op, e) == [un |-> op, a |-> e]
Bin(op, x, y) == [bin |-> op, l |-> x, r |-> y]

IsLit(e) == "lit" \in DOMAIN e
IsCol(e) == "col" \in DOMAIN e
IsUn(e)  == "un"  \in DOMAIN e
IsBin(e) == "bin" \in DOMAIN e

\* A row is [names |-> <<name, ...>>, vals |-> <<value, ...>>]; a name is
\* looked up by first match (joined rows may repeat names).
RowHas(row, c) == \E k \in 1..Len(row.names) : row.names[k] = c
RowGet(row, c) == row.vals[MinOf({k \in 1..Len(row.names) : row.names[k] = c})]

RECURSIVE ColumnsOf(_)
ColumnsOf(e) ==
  IF IsLit(e) THEN {}
  ELSE IF IsCol(e) THEN {e.col}
  ELSE IF IsUn(e) THEN ColumnsOf(e.a)
  ELSE ColumnsOf(e.l) \cup ColumnsOf(e.r)

-----------------------------------------------------------------------------
UnRes(op, v) ==
  CASE op = "not"    -> {Bool(~Truthy(v))}
    [] op = "neg"    -> IF ~IsInt(v) THEN {Null}
                        ELSE IF v.i = MinI32 THEN {Null, IntV(MinI32)}
                        ELSE {IntV(-v.i)}
    [] op = "bitnot" -> IF ~IsInt(v) THEN {Null} ELSE {IntV(BitNot(v.i))}

ArithRes(op, a, b) ==
  CASE op = "add" -> IF AddOverflows(a, b) THEN {Null, IntV(WrapAdd(a, b))} ELSE {IntV(a + b)}
    [] op = "sub" -> IF SubOverflows(a, b) THEN {Null, IntV(WrapSub(a, b))} ELSE {IntV(a - b)}
    [] op = "mul" -> IF MulOverflows(a, b) THEN {Null, IntV(WrapMul(a, b))} ELSE {IntV(WrapMul(a, b))}
    [] op = "div" -> IF b = 0 THEN {Null}
                     ELSE IF a = MinI32 /\ b = -1 THEN {Null, IntV(MinI32)}
                     ELSE {IntV(TruncDiv(a, b))}
    [] op = "band" -> {IntV(BitAnd(a, b))}
    [] op = "bor"  -> {IntV(BitOr(a, b))}
    [] op = "bxor" -> {IntV(BitXor(a, b))}
    [] op = "shl"  -> IF b \in 0..31 THEN {IntV(ShlN(a, b))} ELSE {Null, IntV(ShlN(a, b % 32))}
    [] op = "shr"  -> IF b \in 0..31 THEN {IntV(ShrN(a, b))} ELSE {Null, IntV(ShrN(a, b % 32))}

BinRes(op, x, y) ==
  CASE op = "eq" -> {Bool(x = y)}
    [] op = "ne" -> {Bool(x # y)}
    [] op = "lt" -> {Bool(VLess(x, y))}
    [] op = "le" -> {Bool(VLeq(x, y))}
    [] op = "gt" -> {Bool(VLess(y, x))}
    [] op = "ge" -> {Bool(VLeq(y, x))}
    [] op = "and" -> {Bool(Truthy(x) /\ Truthy(y))}
    [] op = "or"  -> {Bool(Truthy(x) \/ Truthy(y))}
    [] op = "div" /\ IsInt(y) /\ y.i = 0 -> {Null}
    [] op = "add" /\ IsStr(x) /\ IsStr(y) -> {StrV(x.s \o y.s)}
    [] OTHER -> IF IsInt(x) /\ IsInt(y) THEN ArithRes(op, x.i, y.i) ELSE {Null}

RECURSIVE EvalSet(_, _)
EvalSet(e, row) ==
  IF IsLit(e) THEN {e.lit}
  ELSE IF IsCol(e) THEN {RowGet(row, e.col)}
  ELSE IF IsUn(e) THEN UNION {UnRes(e.un, v) : v \in EvalSet(e.a, row)}
  ELSE UNION {BinRes(e.bin, x, y) : x \in EvalSet(e.l, row), y \in EvalSet(e.r, row)}

\* Deterministic evaluation, for conditions that cannot overflow.
Eval(e, row) == CHOOSE v \in EvalSet(e, row) : TRUE
Deterministic(e, row) == Cardinality(EvalSet(e, row)) = 1
Holds(e, row) == Truthy(Eval(e, row))

\* Construction-time folding done by the combinators: a unary or binary
\* operator (other than and/or) applied to literals is replaced by its value.
RECURSIVE Fold(_)
Fold(e) ==
  IF IsLit(e) \/ IsCol(e) THEN e
  ELSE IF IsUn(e) THEN
     LET a == Fold(e.a) IN
     IF IsLit(a) /\ Cardinality(UnRes(e.un, a.lit)) = 1
       THEN Lit(CHOOSE v \in UnRes(e.un, a.lit) : TRUE) ELSE Un(e.un, a)
  ELSE
     LET x == Fold(e.l) y == Fold(e.r) IN
     IF e.bin \notin {"and", "or"} /\ IsLit(x) /\ IsLit(y) /\ Cardinality(BinRes(e.bin, x.lit, y.lit)) = 1
       THEN Lit(CHOOSE v \in BinRes(e.bin, x.lit, y.lit) : TRUE) ELSE Bin(e.bin, x, y)
=============================================================================
